import EmsModel.Core.Polygons
import EmsModel.Lemmas.Polygons
import Mathlib.Algebra.Order.Field.Rat
import Mathlib.Tactic.Linarith
/-!
The exact closed point-in-polygon test of `Core/Geom.lean` (boundary test + crossing number), evaluated on
the cell of a CF 1-D grid — the rectangle `rect xb yb` of `CFGrid1D._make_polygons` — is containment of the
point in the two bounds intervals, for either direction of either axis.  This is what lets the C04 lookup
theorems be stated for CF 1-D grids with no geometric oracle left.
-/
namespace Ems

-- one orientation of the rectangle: unfold the test on the four explicit edges, then decide it in each
-- position class of the query point relative to the four bounds
set_option hygiene false in
macro "rect_pip" hx:ident hy:ident : tactic => `(tactic| (
  have hx1 : x1 - x0 ≠ 0 := by intro h; linarith
  have hx2 : x0 - x1 ≠ 0 := by intro h; linarith
  have hy1 : y1 - y0 ≠ 0 := by intro h; linarith
  have hy2 : y0 - y1 ≠ 0 := by intro h; linarith
  simp only [pointInPoly, rect, ringEdges, List.drop, List.zip, List.zipWith, List.any, List.foldl,
    onSegment, cross, between, List.cons_append, List.nil_append, sub_self, zero_mul, zero_div,
    zero_add, sub_zero, bne_self_eq_false, Bool.false_eq_true, if_false, min_self, max_self,
    min_eq_left (le_of_lt $hx), max_eq_right (le_of_lt $hx), min_eq_left (le_of_lt $hy), max_eq_right (le_of_lt $hy),
    min_eq_right (le_of_lt $hx), max_eq_left (le_of_lt $hx), min_eq_right (le_of_lt $hy), max_eq_left (le_of_lt $hy),
    Bool.or_false, zero_sub,
    Bool.beq_eq_decide_eq, neg_eq_zero, mul_eq_zero, hx1, hx2, hy1, hy2, false_or, sub_eq_zero, gt_iff_lt]
  rcases lt_trichotomy qy y0 with h1 | h1 | h1 <;> rcases lt_trichotomy qy y1 with h2 | h2 | h2 <;>
  rcases lt_trichotomy qx x0 with h3 | h3 | h3 <;> rcases lt_trichotomy qx x1 with h4 | h4 | h4 <;>
  first
  | (exfalso; linarith)
  | (subst_vars; simp only [← not_lt]; simp [*, ne_of_lt, ne_of_gt, lt_asymm] <;> done)))

set_option linter.unusedSimpArgs false

theorem pip_rect_aa (x0 x1 y0 y1 qx qy : Rat) (hx : x0 < x1) (hy : y0 < y1) :
    pointInPoly (qx, qy) (rect (x0, x1) (y0, y1)) = (between qx x0 x1 && between qy y0 y1) := by
  rect_pip hx hy

theorem pip_rect_ad (x0 x1 y0 y1 qx qy : Rat) (hx : x0 < x1) (hy : y1 < y0) :
    pointInPoly (qx, qy) (rect (x0, x1) (y0, y1)) = (between qx x0 x1 && between qy y0 y1) := by
  rect_pip hx hy

theorem pip_rect_da (x0 x1 y0 y1 qx qy : Rat) (hx : x1 < x0) (hy : y0 < y1) :
    pointInPoly (qx, qy) (rect (x0, x1) (y0, y1)) = (between qx x0 x1 && between qy y0 y1) := by
  rect_pip hx hy

theorem pip_rect_dd (x0 x1 y0 y1 qx qy : Rat) (hx : x1 < x0) (hy : y1 < y0) :
    pointInPoly (qx, qy) (rect (x0, x1) (y0, y1)) = (between qx x0 x1 && between qy y0 y1) := by
  rect_pip hx hy

/-- the exact point-in-polygon test on a non-degenerate CF 1-D cell is interval containment on both axes,
whichever way either axis runs -/
theorem pip_rect (xb yb : Rat × Rat) (q : Pt) (hx : xb.1 ≠ xb.2) (hy : yb.1 ≠ yb.2) :
    pointInPoly q (rect xb yb) = (between q.1 xb.1 xb.2 && between q.2 yb.1 yb.2) := by
  obtain ⟨x0, x1⟩ := xb; obtain ⟨y0, y1⟩ := yb; obtain ⟨qx, qy⟩ := q
  simp only at hx hy ⊢
  rcases lt_or_gt_of_ne hx with hx | hx <;> rcases lt_or_gt_of_ne hy with hy | hy
  · exact pip_rect_aa _ _ _ _ _ _ hx hy
  · exact pip_rect_ad _ _ _ _ _ _ hx hy
  · exact pip_rect_da _ _ _ _ _ _ hx hy
  · exact pip_rect_dd _ _ _ _ _ _ hx hy

theorem cf1dPolys_length (lonb latb : List (Rat × Rat)) :
    (cf1dPolys lonb latb).length = latb.length * lonb.length := by
  unfold cf1dPolys
  exact flatMap_length_uniform _ lonb.length latb (by intro a _; simp)

theorem cf1dPolys_at (lonb latb : List (Rat × Rat)) (j i : Nat)
    (hj : j < latb.length) (hi : i < lonb.length) :
    (cf1dPolys lonb latb)[j * lonb.length + i]? = some (some (rect lonb[i] latb[j])) := by
  unfold cf1dPolys
  rw [flatMap_getElem_uniform _ lonb.length latb (by intro a _; simp) j i hj hi]
  simp [hi]

end Ems
