import EmsModel.Lemmas.NpPipelines
/-!
Lemmas/NpDerived2d.lean — the derived-bounds branch of `CFGrid2DTopology._get_or_make_bounds`, GENERATED FROM THE
SOURCE (`Gen.cf2dDerivedBounds`), computes the hand model `Ems.derived2d` of `Core/Polygons.lean`.

Three steps:
1. `d2_shape`: symbolic shape inference, `(ny, nx) ↦ (ny, nx, 4)`.
2. `d2_term_get`: element `[j, i, k]` of the generated term, read through the index maps (`np_simp2`, the whole term
   at once, not looking at its shape), is `D2.res c ny nx j i k` — the same program written over natural-number
   indexes, one definition per line of the source (`isnan`, the two padded copies, `bound_by_nan`, the masked
   assignment, the four padded copies and their `nanmean`, the stack of the four shifted views, the all-or-nothing
   assignment).  Renaming a local or writing an axis positively changes nothing here; changing what is computed
   leaves this lemma unproved.
3. `D2.res = derived2d`, cell by cell (`d2_res_eq`): `Int`-indexed padding of the hand model against the
   `Nat`-indexed padding of numpy.
-/
namespace Ems
open NpArr

/-- `np_simp2 [extra lemmas]`: `np_simp` plus the index maps of `pad` -/
syntax "np_simp2" "[" Lean.Parser.Tactic.simpLemma,* "]" : tactic
macro_rules
  | `(tactic| np_simp2 [$ts,*]) =>
    `(tactic| simp (config := { decide := true }) [getOf, getOfList, concatGetOf, shapeOf, shapesOf, removeAt,
        insertAt, bcastIdx, bcastOk, transposeIdx, sliceIdx, sliceShape, Bound.resolve, Axis.norm, plainDims,
        DimTerm.val, allSomeL, List.lookup, lift2, padShape, padIn, padSrc, List.range_succ, List.range_zero, $ts,*])

theorem truthy_boolVal (b : Bool) : truthy (boolVal b) = b := by cases b <;> decide

theorem truthy_some_zero : truthy (some 0) = false := by decide

/-! ### the source, line by line, over natural-number indexes -/

namespace D2
variable (c : Grid (Option Rat)) (ny nx : Nat)

/-- `nan_coordinates[a, b]` -/
def nanv (a b : Nat) : Option Rat := boolVal (Grid.get c a b).join.isNone
/-- `j_pad[a, b]`: `numpy.pad(nan_coordinates, ((1, 1), (0, 0)), constant_values=False)` -/
def jpad (a b : Nat) : Option Rat := if 1 ≤ a ∧ a < ny + 1 ∧ b < nx then nanv c (a - 1) b else some 0
/-- `i_pad[a, b]` -/
def ipad (a b : Nat) : Option Rat := if a < ny ∧ 1 ≤ b ∧ b < nx + 1 then nanv c a (b - 1) else some 0
/-- `bound_by_nan[a, b] = j_pad[:-2, :][a, b] & j_pad[2:, :][a, b] | i_pad[:, :-2][a, b] & i_pad[:, 2:][a, b]` -/
def bound (a b : Nat) : Bool :=
  truthy (jpad c ny nx a b) && truthy (jpad c ny nx (2 + a) b)
    || truthy (ipad c ny nx a b) && truthy (ipad c ny nx a (2 + b))
/-- `coordinate_values[a, b]` after `coordinate_values[bound_by_nan] = numpy.nan` -/
def cv (a b : Nat) : Option Rat := if bound c ny nx a b then none else (Grid.get c a b).join
/-- `numpy.pad(coordinate_values, ((da, 1 - da), (db, 1 - db)), constant_values=numpy.nan)[a, b]` -/
def pad4 (da db a b : Nat) : Option Rat :=
  if da ≤ a ∧ a < da + ny ∧ db ≤ b ∧ b < db + nx then cv c ny nx (a - da) (b - db) else none
/-- `grid[a, b]`: `numpy.nanmean` of the four padded copies -/
def grid (a b : Nat) : Option Rat :=
  nanmean [pad4 c ny nx 1 1 a b, pad4 c ny nx 1 0 a b, pad4 c ny nx 0 1 a b, pad4 c ny nx 0 0 a b]
/-- `bounds[j, i, k]` before the last assignment: `grid[:-1, :-1]`, `grid[:-1, 1:]`, `grid[1:, 1:]`, `grid[1:, :-1]` -/
def bnd (j i : Nat) : Nat → Option Rat
  | 0 => grid c ny nx j i
  | 1 => grid c ny nx j (1 + i)
  | 2 => grid c ny nx (1 + j) (1 + i)
  | _ => grid c ny nx (1 + j) i
/-- `cells_with_nans[j, i]` -/
def anyNan (j i : Nat) : Bool :=
  (bnd c ny nx j i 0).isNone || ((bnd c ny nx j i 1).isNone || ((bnd c ny nx j i 2).isNone || (bnd c ny nx j i 3).isNone))
/-- `bounds[j, i, k]` as returned -/
def res (j i k : Nat) : Option Rat := if anyNan c ny nx j i then none else bnd c ny nx j i k
end D2

/-! ### steps 1 and 2: the generated term -/

theorem derived2dEnv_wf (c : List (List (Option Rat))) (nx : Nat) (hr : ∀ r ∈ c, r.length = nx) :
    (derived2dEnv c nx).WF := by
  intro p hp
  simp only [derived2dEnv, List.mem_cons, List.not_mem_nil, or_false] at hp
  subst hp
  exact gridArr_wf _ _ hr

theorem d2_shape (c : List (List (Option Rat))) (ny nx : Nat) (hl : c.length = ny) :
    shapeOf (derived2dEnv c nx) Gen.cf2dDerivedBounds = some [ny, nx, 4] := by
  np_simp2 [Gen.cf2dDerivedBounds, derived2dEnv, gridArr_shape, hl, Nat.min_def, Nat.add_comm 1 ny, Nat.add_comm 1 nx]

section
variable (c : List (List (Option Rat))) (ny nx : Nat) (hl : c.length = ny) (hr : ∀ r ∈ c, r.length = nx) (j i : Nat)
include hl hr

theorem d2_term_get0 : getOf (derived2dEnv c nx) Gen.cf2dDerivedBounds [j, i, 0] = D2.res c ny nx j i 0 := by
  np_simp2 [Gen.cf2dDerivedBounds, derived2dEnv, gridArr_shape, hl, Nat.min_def, Nat.add_comm 1 ny, Nat.add_comm 1 nx,
    gridArr_get c nx hr, isnanV, bandV, borV, anyV, truthy_boolVal,
    D2.res, D2.anyNan, D2.bnd, D2.grid, D2.pad4, D2.cv, D2.bound, D2.jpad, D2.ipad, D2.nanv]

theorem d2_term_get1 : getOf (derived2dEnv c nx) Gen.cf2dDerivedBounds [j, i, 1] = D2.res c ny nx j i 1 := by
  np_simp2 [Gen.cf2dDerivedBounds, derived2dEnv, gridArr_shape, hl, Nat.min_def, Nat.add_comm 1 ny, Nat.add_comm 1 nx,
    gridArr_get c nx hr, isnanV, bandV, borV, anyV, truthy_boolVal,
    D2.res, D2.anyNan, D2.bnd, D2.grid, D2.pad4, D2.cv, D2.bound, D2.jpad, D2.ipad, D2.nanv]

theorem d2_term_get2 : getOf (derived2dEnv c nx) Gen.cf2dDerivedBounds [j, i, 2] = D2.res c ny nx j i 2 := by
  np_simp2 [Gen.cf2dDerivedBounds, derived2dEnv, gridArr_shape, hl, Nat.min_def, Nat.add_comm 1 ny, Nat.add_comm 1 nx,
    gridArr_get c nx hr, isnanV, bandV, borV, anyV, truthy_boolVal,
    D2.res, D2.anyNan, D2.bnd, D2.grid, D2.pad4, D2.cv, D2.bound, D2.jpad, D2.ipad, D2.nanv]

theorem d2_term_get3 : getOf (derived2dEnv c nx) Gen.cf2dDerivedBounds [j, i, 3] = D2.res c ny nx j i 3 := by
  np_simp2 [Gen.cf2dDerivedBounds, derived2dEnv, gridArr_shape, hl, Nat.min_def, Nat.add_comm 1 ny, Nat.add_comm 1 nx,
    gridArr_get c nx hr, isnanV, bandV, borV, anyV, truthy_boolVal,
    D2.res, D2.anyNan, D2.bnd, D2.grid, D2.pad4, D2.cv, D2.bound, D2.jpad, D2.ipad, D2.nanv]

/-- element `[j, i, k]` of the generated term is `bounds[j, i, k]` of the source read line by line -/
theorem d2_term_get (k : Nat) (hk : k < 4) :
    getOf (derived2dEnv c nx) Gen.cf2dDerivedBounds [j, i, k] = D2.res c ny nx j i k := by
  rcases (by omega : k = 0 ∨ k = 1 ∨ k = 2 ∨ k = 3) with rfl | rfl | rfl | rfl
  · exact d2_term_get0 c ny nx hl hr j i
  · exact d2_term_get1 c ny nx hl hr j i
  · exact d2_term_get2 c ny nx hl hr j i
  · exact d2_term_get3 c ny nx hl hr j i
end

/-! ### step 3: the hand model, with its local definitions named -/

/-- is `c[a][b]` present in the array and NaN? (`isNanAt` over natural-number indexes) -/
def nanN (c : Grid (Option Rat)) (a b : Nat) : Bool := Grid.get c a b == some none

/-- `vals[j][i]` of `derived2d` -/
def d2Vals (c : Grid (Option Rat)) (j i : Nat) : Option Rat :=
  let jb := isNanAt c ((j : Int) - 1) (i : Int) && isNanAt c ((j : Int) + 1) (i : Int)
  let ib := isNanAt c (j : Int) ((i : Int) - 1) && isNanAt c (j : Int) ((i : Int) + 1)
  if jb || ib then none else (c.get j i).join

def d2ValsGrid (c : Grid (Option Rat)) (ny nx : Nat) : Grid (Option Rat) :=
  (List.range ny).map fun (j : Nat) => (List.range nx).map fun (i : Nat) => d2Vals c j i

/-- `corner gj gi` of `derived2d` -/
def d2Corner (c : Grid (Option Rat)) (ny nx gj gi : Nat) : Option Rat :=
  nanmean [(d2ValsGrid c ny nx).getPad ((gj : Int) - 1) ((gi : Int) - 1), (d2ValsGrid c ny nx).getPad ((gj : Int) - 1) (gi : Int),
           (d2ValsGrid c ny nx).getPad (gj : Int) ((gi : Int) - 1), (d2ValsGrid c ny nx).getPad (gj : Int) (gi : Int)]

theorem derived2d_eq (c : Grid (Option Rat)) (ny nx : Nat) :
    derived2d c ny nx = (List.range ny).map fun j => (List.range nx).map fun i =>
      allSomeL [d2Corner c ny nx j i, d2Corner c ny nx j (i + 1), d2Corner c ny nx (j + 1) (i + 1), d2Corner c ny nx (j + 1) i] := rfl

theorem isNanAt_nat (c : Grid (Option Rat)) (a b : Nat) : isNanAt c (a : Int) (b : Int) = nanN c a b := by
  have ha : ¬ ((a : Int) < 0) := Int.not_lt.mpr (Int.natCast_nonneg a)
  have hb : ¬ ((b : Int) < 0) := Int.not_lt.mpr (Int.natCast_nonneg b)
  unfold isNanAt nanN
  simp only [ha, hb, decide_false, Bool.or_self, Bool.false_eq_true, if_false, Int.toNat_natCast]
  cases h : Grid.get c a b with
  | none => simp
  | some v => cases v <;> simp

theorem isNanAt_predJ (c : Grid (Option Rat)) (a b : Nat) :
    isNanAt c ((a : Int) - 1) (b : Int) = (decide (1 ≤ a) && nanN c (a - 1) b) := by
  cases a with
  | zero => simp [isNanAt]
  | succ a =>
    have e : ((a + 1 : Nat) : Int) - 1 = (a : Int) := by omega
    rw [e, isNanAt_nat]; simp

theorem isNanAt_succJ (c : Grid (Option Rat)) (a b : Nat) :
    isNanAt c ((a : Int) + 1) (b : Int) = nanN c (a + 1) b := by
  have e : (a : Int) + 1 = ((a + 1 : Nat) : Int) := by omega
  rw [e, isNanAt_nat]

theorem isNanAt_predI (c : Grid (Option Rat)) (a b : Nat) :
    isNanAt c (a : Int) ((b : Int) - 1) = (decide (1 ≤ b) && nanN c a (b - 1)) := by
  cases b with
  | zero => simp [isNanAt]
  | succ b =>
    have e : ((b + 1 : Nat) : Int) - 1 = (b : Int) := by omega
    rw [e, isNanAt_nat]; simp

theorem isNanAt_succI (c : Grid (Option Rat)) (a b : Nat) :
    isNanAt c (a : Int) ((b : Int) + 1) = nanN c a (b + 1) := by
  have e : (b : Int) + 1 = ((b + 1 : Nat) : Int) := by omega
  rw [e, isNanAt_nat]

theorem valsGrid_get (c : Grid (Option Rat)) (ny nx a b : Nat) :
    Grid.get (d2ValsGrid c ny nx) a b = if a < ny ∧ b < nx then some (d2Vals c a b) else none := by
  unfold Grid.get d2ValsGrid
  by_cases ha : a < ny
  · by_cases hb : b < nx
    · simp [ha, hb]
    · simp [ha, hb]
  · simp [ha]


theorem allSomeL4_length (a0 a1 a2 a3 : Option Rat) (l : List Rat) (h : allSomeL [a0, a1, a2, a3] = some l) :
    l.length = 4 := by
  cases a0 <;> cases a1 <;> cases a2 <;> cases a3 <;> simp [allSomeL] at h
  subst h; rfl

theorem cornerCell_allSomeL4 (a0 a1 a2 a3 : Option Rat) (k : Nat) (hk : k < 4) :
    ((cornerCell (allSomeL [a0, a1, a2, a3]))[k]?).join
      = if a0.isNone || (a1.isNone || (a2.isNone || a3.isNone)) then none else ([a0, a1, a2, a3][k]?).join := by
  rcases (by omega : k = 0 ∨ k = 1 ∨ k = 2 ∨ k = 3) with rfl | rfl | rfl | rfl <;>
    cases a0 <;> cases a1 <;> cases a2 <;> cases a3 <;> simp [allSomeL, cornerCell]

section
variable (c : List (List (Option Rat))) (ny nx : Nat) (hl : c.length = ny) (hr : ∀ r ∈ c, r.length = nx)
include hl hr

theorem grid_get_inRange (a b : Nat) (ha : a < ny) (hb : b < nx) : ∃ v, Grid.get c a b = some v := by
  have ha' : a < c.length := by omega
  have hb' : b < c[a].length := by rw [hr _ (List.getElem_mem ha')]; exact hb
  exact ⟨c[a][b], by simp [Grid.get, List.getElem?_eq_getElem ha', List.getElem?_eq_getElem hb']⟩

theorem grid_get_outside (a b : Nat) (h : ¬ (a < ny ∧ b < nx)) : Grid.get c a b = none := by
  by_cases ha : a < c.length
  · have hb : c[a].length ≤ b := by rw [hr _ (List.getElem_mem ha)]; omega
    simp [Grid.get, List.getElem?_eq_getElem ha, List.getElem?_eq_none hb]
  · simp [Grid.get, List.getElem?_eq_none (by omega : c.length ≤ a)]

theorem nanN_outside (a b : Nat) (h : ¬ (a < ny ∧ b < nx)) : nanN c a b = false := by
  simp [nanN, grid_get_outside c ny nx hl hr a b h]

theorem truthy_nanv (a b : Nat) (ha : a < ny) (hb : b < nx) : truthy (D2.nanv c a b) = nanN c a b := by
  obtain ⟨v, hv⟩ := grid_get_inRange c ny nx hl hr a b ha hb
  cases v <;> simp [D2.nanv, nanN, hv, truthy_boolVal]

theorem truthy_jpad (a b : Nat) : truthy (D2.jpad c ny nx a b) = (decide (1 ≤ a) && nanN c (a - 1) b) := by
  unfold D2.jpad
  split
  · rename_i h
    rw [truthy_nanv c ny nx hl hr (a - 1) b (by omega) h.2.2]
    simp [h.1]
  · rename_i h
    by_cases h1 : 1 ≤ a
    · rw [nanN_outside c ny nx hl hr (a - 1) b (by omega)]; simp [truthy_some_zero]
    · simp [h1, truthy_some_zero]

theorem truthy_ipad (a b : Nat) : truthy (D2.ipad c ny nx a b) = (decide (1 ≤ b) && nanN c a (b - 1)) := by
  unfold D2.ipad
  split
  · rename_i h
    rw [truthy_nanv c ny nx hl hr a (b - 1) h.1 (by omega)]
    simp [h.2.1]
  · rename_i h
    by_cases h1 : 1 ≤ b
    · rw [nanN_outside c ny nx hl hr a (b - 1) (by omega)]; simp [truthy_some_zero]
    · simp [h1, truthy_some_zero]

/-- the masked coordinate values of the source are the `vals` of the hand model -/
theorem cv_eq (a b : Nat) : D2.cv c ny nx a b = d2Vals c a b := by
  simp only [D2.cv, D2.bound, d2Vals, truthy_jpad c ny nx hl hr, truthy_ipad c ny nx hl hr, isNanAt_predJ, isNanAt_succJ,
    isNanAt_predI, isNanAt_succI]
  have e1 : 2 + a - 1 = a + 1 := by omega
  have e2 : 2 + b - 1 = b + 1 := by omega
  have h1 : (1 : Nat) ≤ 2 + a := by omega
  have h2 : (1 : Nat) ≤ 2 + b := by omega
  simp [e1, e2, h1, h2]
/-- the `Int`-indexed padded read of the hand model is the `Nat`-indexed read of `numpy.pad` -/
theorem getPad_eq (da db a b : Nat) :
    (d2ValsGrid c ny nx).getPad ((a : Int) - (da : Int)) ((b : Int) - (db : Int)) = D2.pad4 c ny nx da db a b := by
  unfold Grid.getPad D2.pad4
  by_cases h : da ≤ a ∧ db ≤ b
  · have e1 : ((a : Int) - (da : Int)).toNat = a - da := by omega
    have e2 : ((b : Int) - (db : Int)).toNat = b - db := by omega
    have n1 : ¬ ((a : Int) - (da : Int) < 0) := by omega
    have n2 : ¬ ((b : Int) - (db : Int) < 0) := by omega
    simp only [n1, n2, decide_false, Bool.or_self, Bool.false_eq_true, if_false, e1, e2,
      valsGrid_get c ny nx, cv_eq c ny nx hl hr]
    by_cases h2 : a - da < ny ∧ b - db < nx
    · have : da ≤ a ∧ a < da + ny ∧ db ≤ b ∧ b < db + nx := by omega
      simp [h2, this]
    · have : ¬ (da ≤ a ∧ a < da + ny ∧ db ≤ b ∧ b < db + nx) := by omega
      simp [h2, this]
  · have : ¬ (da ≤ a ∧ a < da + ny ∧ db ≤ b ∧ b < db + nx) := by omega
    have n : ((a : Int) - (da : Int) < 0) ∨ ((b : Int) - (db : Int) < 0) := by omega
    rcases n with n | n <;> simp [n, this]

/-- `grid[a, b]` of the source is `corner a b` of the hand model -/
theorem grid_eq (a b : Nat) : D2.grid c ny nx a b = d2Corner c ny nx a b := by
  have h11 := getPad_eq c ny nx hl hr 1 1 a b
  have h10 := getPad_eq c ny nx hl hr 1 0 a b
  have h01 := getPad_eq c ny nx hl hr 0 1 a b
  have h00 := getPad_eq c ny nx hl hr 0 0 a b
  simp only [Int.natCast_zero, Int.natCast_one, Int.sub_zero] at h11 h10 h01 h00
  simp only [D2.grid, d2Corner, h11, h10, h01, h00]

omit hl hr in
theorem derived2d_wf :
    ∀ r ∈ (derived2d c ny nx).map (fun row => row.map cornerCell), r.length = nx ∧ ∀ q ∈ r, q.length = 4 := by
  intro r hr'
  rw [derived2d_eq] at hr'
  simp only [List.map_map, List.mem_map, List.mem_range] at hr'
  obtain ⟨j, _, rfl⟩ := hr'
  refine ⟨by simp, ?_⟩
  intro q hq
  simp only [Function.comp_apply, List.map_map, List.mem_map, List.mem_range] at hq
  obtain ⟨i, _, rfl⟩ := hq
  cases h : allSomeL [d2Corner c ny nx j i, d2Corner c ny nx j (i + 1), d2Corner c ny nx (j + 1) (i + 1), d2Corner c ny nx (j + 1) i] with
  | none => simp [cornerCell]
  | some l => simp [cornerCell, allSomeL4_length _ _ _ _ l h]

/-- **cell `(j, i)`, corner `k` of the source's result is that of `derived2d`** -/
theorem d2_res_eq (j i k : Nat) (hj : j < ny) (hi : i < nx) (hk : k < 4) :
    D2.res c ny nx j i k = (cornersArr (derived2d c ny nx) nx).get [j, i, k] := by
  unfold cornersArr
  rw [grid3Arr_get _ nx 4 (derived2d_wf c ny nx)]
  rw [derived2d_eq]
  simp only [Grid.get, List.getElem?_map, List.getElem?_range hj, List.getElem?_range hi, Option.map_some, Option.bind_some]
  rw [cornerCell_allSomeL4 _ _ _ _ k hk]
  simp only [D2.res, D2.anyNan, D2.bnd, grid_eq c ny nx hl hr, Nat.add_comm 1]
  rcases (by omega : k = 0 ∨ k = 1 ∨ k = 2 ∨ k = 3) with rfl | rfl | rfl | rfl <;> simp

/-- **the derived-bounds branch of `CFGrid2DTopology._get_or_make_bounds` as the source has it** computes, for every
`ny × nx` coordinate array, the `(ny, nx, 4)` array of `derived2d` -/
theorem cf2d_derived_pipeline :
    eval (derived2dEnv c nx) Gen.cf2dDerivedBounds = some (cornersArr (derived2d c ny nx) nx) := by
  rw [eval_sound _ (derived2dEnv_wf c nx hr) _ _ (d2_shape c ny nx hl)]
  congr 1
  apply NpArr.ext
  · simp [tabulate_shape, cornersArr, grid3Arr_shape, derived2d_eq]
  · exact tabulate_wf _ _
  · exact grid3Arr_wf _ _ _ (derived2d_wf c ny nx)
  · intro idx hidx
    have hidx' : InRange [ny, nx, 4] idx := hidx
    rw [get_tabulate _ _ _ hidx']
    match idx, hidx' with
    | [j, i, k], h =>
      rw [d2_term_get c ny nx hl hr j i k h.2.2.1, d2_res_eq c ny nx hl hr j i k h.1 h.2.1 h.2.2.1]
end

end Ems
