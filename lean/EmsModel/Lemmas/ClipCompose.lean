import EmsModel.Lemmas.Clip
import EmsModel.Lemmas.Mask
/-!
Bridge between the two halves of a grid clip: the `(ny, nx)` boolean array `make_clip_mask` computes
(`Ems.Clip.Mask`, C07) and the named mask variable `apply_clip_mask` reads (`NArr Bool`, C08).
-/
namespace Ems
open Ems.NArr

/-- the face mask as the mask dataset holds it: a variable over the grid's two dimensions -/
def faceMaskVar (ydim xdim : String) (m : Clip.Mask) : NArr Bool :=
  NArr.ofFn [(ydim, m.ny), (xdim, m.nx)] fun e =>
    match e.get ydim, e.get xdim with
    | some j, some i => some (m.get j i)
    | _, _ => none

theorem faceMaskVar_names (ydim xdim : String) (m : Clip.Mask) : (faceMaskVar ydim xdim m).names = [ydim, xdim] := rfl

/-- reading the mask variable at an environment is reading the array at its grid position -/
theorem faceMaskVar_get (ydim xdim : String) (hne : ydim ≠ xdim) (m : Clip.Mask) (e : Env) (j i : Nat)
    (hj : e.get ydim = some j) (hi : e.get xdim = some i) (hjn : j < m.ny) (hin : i < m.nx) :
    (faceMaskVar ydim xdim m).get? e = some (m.get j i) := by
  unfold faceMaskVar
  have hidx : e.index ([(ydim, m.ny), (xdim, m.nx)].map (·.1)) = some [j, i] := by
    simp [Env.index, allSome, hj, hi]
  have hr : InRange ([(ydim, m.ny), (xdim, m.nx)].map (·.2)) [j, i] := by
    simp [InRange, hjn, hin]
  rw [get_ofFn _ _ e [j, i] hidx hr]
  have hxy : (xdim == ydim) = false := by
    rw [beq_eq_false_iff_ne]; exact fun h => hne h.symm
  simp [Env.get, List.lookup, hxy]

theorem gridClipMask_ny (ny nx : Nat) (hits : List Nat) (buffer : Int) :
    (Clip.gridClipMask ny nx hits buffer).ny = ny := by
  unfold Clip.gridClipMask
  split <;> rfl

theorem gridClipMask_nx (ny nx : Nat) (hits : List Nat) (buffer : Int) :
    (Clip.gridClipMask ny nx hits buffer).nx = nx := by
  unfold Clip.gridClipMask
  split <;> rfl

end Ems
