import EmsModel.Core.Polygons
/-! Indexing lemmas for row-major flattened comprehensions. Core Lean only. -/
namespace Ems

/-- Row-major position in a flattened list of equal-length rows. -/
theorem flatMap_getElem_uniform {β γ : Type} (g : β → List γ) (n : Nat) :
    ∀ (l : List β), (∀ a ∈ l, (g a).length = n) → ∀ (j i : Nat) (hj : j < l.length), i < n →
    (l.flatMap g)[j * n + i]? = (g l[j])[i]?
  | [], _, j, i, hj, _ => by simp at hj
  | a :: as, h, 0, i, _, hi => by
    have ha : (g a).length = n := h a (by simp)
    simp only [List.flatMap_cons, Nat.zero_mul, Nat.zero_add, List.getElem_cons_zero]
    rw [List.getElem?_append_left (by omega)]
  | a :: as, h, j + 1, i, hj, hi => by
    have ha : (g a).length = n := h a (by simp)
    have ih := flatMap_getElem_uniform g n as (fun b hb => h b (by simp [hb])) j i (by simpa using hj) hi
    simp only [List.flatMap_cons, List.getElem_cons_succ]
    rw [List.getElem?_append_right (by rw [ha, Nat.add_mul]; omega)]
    rw [ha]
    have : (j + 1) * n + i - n = j * n + i := by rw [Nat.add_mul]; omega
    rw [this, ih]

theorem flatMap_length_uniform {β γ : Type} (g : β → List γ) (n : Nat) :
    ∀ (l : List β), (∀ a ∈ l, (g a).length = n) → (l.flatMap g).length = l.length * n
  | [], _ => by simp
  | a :: as, h => by
    have ha : (g a).length = n := h a (by simp)
    have ih := flatMap_length_uniform g n as (fun b hb => h b (by simp [hb]))
    simp only [List.flatMap_cons, List.length_append, List.length_cons, ha, ih, Nat.add_mul]
    omega

theorem allSomeL_eq_some {β : Type} : ∀ (l : List (Option β)) (r : List β),
    allSomeL l = some r ↔ l = r.map some
  | [], r => by cases r <;> simp [allSomeL]
  | none :: xs, r => by cases r <;> simp [allSomeL]
  | some x :: xs, r => by
    cases r with
    | nil => simp [allSomeL]
    | cons y ys =>
      simp only [allSomeL, Option.map_eq_some_iff, List.map_cons, List.cons.injEq, Option.some.injEq]
      constructor
      · rintro ⟨a, ha, rfl, rfl⟩
        exact ⟨rfl, (allSomeL_eq_some xs _).mp ha⟩
      · rintro ⟨rfl, h⟩
        exact ⟨ys, (allSomeL_eq_some xs ys).mpr h, rfl, rfl⟩

theorem allSomeL_eq_none {β : Type} : ∀ (l : List (Option β)), allSomeL l = none ↔ none ∈ l
  | [] => by simp [allSomeL]
  | none :: xs => by simp [allSomeL]
  | some x :: xs => by
    simp only [allSomeL, Option.map_eq_none_iff, allSomeL_eq_none xs, List.mem_cons]
    constructor
    · intro h; exact Or.inr h
    · rintro (h | h)
      · simp at h
      · exact h

end Ems
