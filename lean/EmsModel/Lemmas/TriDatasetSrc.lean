import EmsModel.Core.TriDatasetSrc
import EmsModel.Lemmas.Polygons
/-!
Lemmas/TriDatasetSrc.lean — what the declared bookkeeping program of `triangulate_dataset`
(`Ems.triDatasetLoops`, `Ems.triDatasetTotal` of `Core/TriDatasetSrc.lean`, to which the program GENERATED FROM THE
SOURCE is proved equal in `Props/C14Src.lean`) computes: for every cell exactly one block, tagged with the cell's own
index, holding the fan of the cell when its hull has as many coordinates as the cell and the ear clipping otherwise; no
block for a cell without geometry; and the row count `Tri.totalTriangles`.
Core Lean only.
-/
namespace Ems

/-! ### lists -/

theorem tdCollect_map_some {α : Type} (g : α → Option (List TdBlock)) (h : α → List TdBlock) :
    ∀ (l : List α), (∀ x ∈ l, g x = some (h x)) → tdCollect (l.map g) = some (l.flatMap h)
  | [], _ => by simp [tdCollect, allSomeL]
  | a :: l, hg => by
    have ih := tdCollect_map_some g h l (fun x hx => hg x (by simp [hx]))
    simp only [tdCollect, Option.map_eq_some_iff] at ih
    obtain ⟨r, hr, hfl⟩ := ih
    simp [tdCollect, allSomeL, hg a (by simp), hr, hfl]

theorem td_flatMap_singleton_map {α β : Type} (g : α → β) : ∀ l : List α, l.flatMap (fun i => [g i]) = l.map g
  | [] => rfl
  | a :: l => by simp [td_flatMap_singleton_map g l]

theorem td_zip_map_self {α β : Type} (F : α → β) : ∀ l : List α, l.zip (l.map F) = l.map fun i => (i, F i)
  | [] => rfl
  | a :: l => by simp [td_zip_map_self F l]

/-- in `(range n).filter P` the value `j` occurs once if `j < n ∧ P j` and not at all otherwise -/
theorem td_range_filter_filter_eq (n : Nat) (P : Nat → Bool) (j : Nat) :
    ((List.range n).filter P).filter (· == j) = if j < n ∧ P j = true then [j] else [] := by
  induction n with
  | zero => simp
  | succ n ih =>
    rw [List.range_succ, List.filter_append, List.filter_append, ih]
    by_cases hj : j < n
    · have : ¬ n = j := by omega
      by_cases hp : P j = true <;> by_cases hn : P n = true <;> simp [hj, hp, hn, this, Nat.lt_succ_of_lt hj]
    · by_cases hjn : j = n
      · subst hjn
        by_cases hp : P j = true <;> simp [hp]
      · have h1 : ¬ j < n + 1 := by omega
        have h2 : ¬ n = j := by omega
        by_cases hn : P n = true <;> simp [hj, h1, hn, h2]

/-- a `flatMap` over `(range m).filter Q` whose function is empty away from `u0` -/
theorem td_flatMap_range_filter_single {β : Type} (m : Nat) (Q : Nat → Bool) (H : Nat → List β) (u0 : Nat)
    (hH : ∀ u, u ≠ u0 → H u = []) :
    ((List.range m).filter Q).flatMap H = if u0 < m ∧ Q u0 = true then H u0 else [] := by
  induction m with
  | zero => simp
  | succ m ih =>
    rw [List.range_succ, List.filter_append, List.flatMap_append, ih]
    by_cases hu : u0 < m
    · have hne : m ≠ u0 := by omega
      by_cases hq : Q u0 = true <;> by_cases hm : Q m = true <;>
        simp [hu, hq, hm, hH m hne, Nat.lt_succ_of_lt hu]
    · by_cases hum : u0 = m
      · subst hum
        by_cases hq : Q u0 = true <;> simp [hq]
      · have h1 : ¬ u0 < m + 1 := by omega
        by_cases hm : Q m = true <;> simp [hu, h1, hm, hH m (fun h => hum h.symm)]

theorem mem_tdFlatnonzero (bs : List Bool) (i : Nat) : i ∈ tdFlatnonzero bs ↔ i < bs.length ∧ bs.getD i false = true := by
  simp [tdFlatnonzero]

theorem tdFlatnonzero_filter_eq (bs : List Bool) (j : Nat) :
    (tdFlatnonzero bs).filter (· == j) = if j < bs.length ∧ bs.getD j false = true then [j] else [] :=
  td_range_filter_filter_eq bs.length _ j

/-- blocks tagged with the positions of the true entries: the blocks tagged `j` -/
theorem tdFlatnonzero_map_filter {β : Type} (bs : List Bool) (j : Nat) (g : Nat → β) :
    ((tdFlatnonzero bs).map fun i => (i, g i)).filter (fun b => b.1 == j)
      = if j ∈ tdFlatnonzero bs then [(j, g j)] else [] := by
  rw [List.filter_map]
  have : ((fun b : Nat × β => b.1 == j) ∘ fun i => (i, g i)) = fun i => i == j := rfl
  rw [this, tdFlatnonzero_filter_eq]
  by_cases hm : j < bs.length ∧ bs.getD j false = true
  · rw [if_pos hm, if_pos ((mem_tdFlatnonzero _ _).mpr hm)]; rfl
  · rw [if_neg hm, if_neg (fun h => hm ((mem_tdFlatnonzero _ _).mp h))]; rfl

theorem td_le_foldl_max : ∀ (l : List Nat) (a v : Nat), v ∈ l ∨ v ≤ a → v ≤ l.foldl max a
  | [], a, v, h => by simpa using h
  | x :: l, a, v, h => by
    simp only [List.foldl_cons]
    apply td_le_foldl_max l (max a x) v
    rcases h with h | h
    · rcases List.mem_cons.mp h with rfl | h
      · right; omega
      · left; exact h
    · right; omega

theorem mem_tdUnique (l : List Nat) (v : Nat) : v ∈ tdUnique l ↔ v ∈ l := by
  simp only [tdUnique, List.mem_filter, List.mem_range, List.contains_iff_mem]
  constructor
  · exact fun h => h.2
  · intro h
    exact ⟨Nat.lt_succ_of_le (td_le_foldl_max l 0 v (Or.inl h)), h⟩

/-! ### the arrays of the bookkeeping -/

/-- `polygon_is_concave`: the cells whose hull has another number of coordinates than the cell -/
def tdConcave (cells : List (Option (List Tri.Pt))) (hullLen : List Tri.Pt → Nat) : List Nat :=
  tdFlatnonzero (List.zipWith (· != ·) (cells.map (tdHullLen hullLen)) (cells.map tdPolyLen))

/-- `polygon_length` after the concave cells are zeroed -/
def tdLengths (cells : List (Option (List Tri.Pt))) (hullLen : List Tri.Pt → Nat) : List Nat :=
  (List.range cells.length).map fun i =>
    if (tdConcave cells hullLen).contains i then 0 else (cells.map tdPolyLen).getD i 0

/-- the cell at a position, for positions known to hold a polygon -/
def tdCellAt (cells : List (Option (List Tri.Pt))) (i : Nat) : List Tri.Pt := (cells.getD i none).getD []

theorem mem_tdConcave (cells : List (Option (List Tri.Pt))) (hullLen : List Tri.Pt → Nat) (i : Nat) :
    i ∈ tdConcave cells hullLen ↔ ∃ p, cells[i]? = some (some p) ∧ hullLen p ≠ p.length + 1 := by
  simp only [tdConcave, mem_tdFlatnonzero, List.length_zipWith, List.length_map, Nat.min_self]
  constructor
  · rintro ⟨hi, h⟩
    rw [List.getD_eq_getElem?_getD, List.getElem?_eq_getElem (by simp [hi])] at h
    simp only [List.getElem_zipWith, List.getElem_map, Option.getD_some, bne_iff_ne, ne_eq] at h
    cases hc : cells[i] with
    | none => simp [hc, tdHullLen, tdPolyLen] at h
    | some p =>
      refine ⟨p, by simp [List.getElem?_eq_getElem hi, hc], ?_⟩
      simpa [hc, tdHullLen, tdPolyLen] using h
  · rintro ⟨p, hp, hne⟩
    have hi : i < cells.length := by
      rcases Nat.lt_or_ge i cells.length with h | h
      · exact h
      · simp [List.getElem?_eq_none h] at hp
    refine ⟨hi, ?_⟩
    rw [List.getD_eq_getElem?_getD, List.getElem?_eq_getElem (by simp [hi])]
    have hc : cells[i] = some p := by simpa [List.getElem?_eq_getElem hi] using hp
    simp [hc, tdHullLen, tdPolyLen, hne]

theorem tdLengths_length (cells : List (Option (List Tri.Pt))) (hullLen : List Tri.Pt → Nat) :
    (tdLengths cells hullLen).length = cells.length := by simp [tdLengths]

theorem tdLengths_getD (cells : List (Option (List Tri.Pt))) (hullLen : List Tri.Pt → Nat) (i : Nat)
    (hi : i < cells.length) :
    (tdLengths cells hullLen).getD i 0 = if i ∈ tdConcave cells hullLen then 0 else tdPolyLen cells[i] := by
  simp [tdLengths, List.getD_eq_getElem?_getD, hi]

/-- entry `i` of the zeroed lengths is `u ≠ 0` exactly for a convex cell with `u - 1` vertices -/
theorem tdLengths_eq_iff (cells : List (Option (List Tri.Pt))) (hullLen : List Tri.Pt → Nat) (i u : Nat) (hu : u ≠ 0) :
    (i < cells.length ∧ (tdLengths cells hullLen).getD i 0 = u) ↔
      ∃ p, cells[i]? = some (some p) ∧ hullLen p = p.length + 1 ∧ p.length + 1 = u := by
  constructor
  · rintro ⟨hi, h⟩
    rw [tdLengths_getD cells hullLen i hi] at h
    split at h
    · exact absurd h.symm hu
    · rename_i hnc
      cases hc : cells[i] with
      | none => rw [hc] at h; exact absurd h.symm hu
      | some p =>
        rw [hc] at h
        refine ⟨p, by simp [List.getElem?_eq_getElem hi, hc], ?_, h⟩
        apply Classical.byContradiction
        intro hne
        exact hnc ((mem_tdConcave cells hullLen i).mpr ⟨p, by simp [List.getElem?_eq_getElem hi, hc], hne⟩)
  · rintro ⟨p, hp, hcv, hpu⟩
    have hi : i < cells.length := by
      rcases Nat.lt_or_ge i cells.length with h | h
      · exact h
      · simp [List.getElem?_eq_none h] at hp
    have hc : cells[i] = some p := by simpa [List.getElem?_eq_getElem hi] using hp
    refine ⟨hi, ?_⟩
    rw [tdLengths_getD cells hullLen i hi, hc]
    have hnc : i ∉ tdConcave cells hullLen := by
      rw [mem_tdConcave]
      rintro ⟨q, hq, hne⟩
      rw [hp] at hq
      cases Option.some.inj (Option.some.inj hq)
      exact hne hcv
    simp [hnc, tdPolyLen, hpu]

/-! ### evaluation of the pieces (for any values of the loop variables) -/

section
variable (cells : List (Option (List Tri.Pt))) (hullLen : List Tri.Pt → Nat) (isEar : List Tri.Pt → Nat → Bool)
  (vars : List TdVal)

theorem tdEval_polyLen :
    tdEval ⟨cells, hullLen, isEar, vars⟩ (.numCoords .polygons) = some (.ints (cells.map tdPolyLen)) := by
  simp [tdEval]

theorem tdEval_concave :
    tdEval ⟨cells, hullLen, isEar, vars⟩
      (.flatnonzero (.ne (.numCoords (.convexHull .polygons)) (.numCoords .polygons)))
      = some (.ints (tdConcave cells hullLen)) := by
  simp [tdEval, tdConcave]

theorem tdEval_lengths :
    tdEval ⟨cells, hullLen, isEar, vars⟩ triDatasetLengths = some (.ints (tdLengths cells hullLen)) := by
  have hall : (tdConcave cells hullLen).all (fun x => decide (x < cells.length)) = true := by
    rw [List.all_eq_true]
    intro i hi
    have := (mem_tdFlatnonzero _ i).mp hi
    simp only [List.length_zipWith, List.length_map, Nat.min_self] at this
    simpa using this.1
  unfold triDatasetLengths
  rw [tdEval, tdEval_polyLen, tdEval_concave]
  simp only [tdSetAt, List.length_map, hall, if_true, Option.map_some, tdLengths]

end

/-! ### the two loops in closed form -/

theorem tdTake_some {β : Type} (l : List β) (d : β) (idx : List Nat) (h : ∀ i ∈ idx, i < l.length) :
    tdTake l idx = some (idx.map fun i => l.getD i d) := by
  unfold tdTake
  apply (allSomeL_eq_some _ _).mpr
  rw [List.map_map]
  apply List.map_congr_left
  intro i hi
  simp [List.getD_eq_getElem?_getD, List.getElem?_eq_getElem (h i hi)]

theorem tdFanBatch_uniform (l : List (Option (List Tri.Pt))) (m : Nat) (hm : 3 ≤ m) (hne : l ≠ [])
    (hall : ∀ q ∈ l, ∃ p, q = some p ∧ p.length = m) :
    tdFanBatch l = some (l.map fun q => Tri.fan (q.getD [])) := by
  cases l with
  | nil => exact absurd rfl hne
  | cons q0 rest =>
    obtain ⟨p, rfl, hp⟩ := hall q0 (by simp)
    have hcond : 3 ≤ p.length ∧ ((some p :: rest).all fun q => q.map (·.length) == some p.length) = true := by
      refine ⟨by omega, ?_⟩
      rw [List.all_eq_true]
      intro q hq
      obtain ⟨p', rfl, hp'⟩ := hall q hq
      simp [hp, hp']
    simp only [tdFanBatch, hcond, and_self, if_true]

section
variable (cells : List (Option (List Tri.Pt))) (hullLen : List Tri.Pt → Nat) (isEar : List Tri.Pt → Nat → Bool)

/-- the positions whose zeroed length is `u` -/
def tdSameLength (u : Nat) : List Nat := tdFlatnonzero ((tdLengths cells hullLen).map (· == u))

theorem mem_tdSameLength (u i : Nat) (hu : u ≠ 0) :
    i ∈ tdSameLength cells hullLen u ↔ ∃ p, cells[i]? = some (some p) ∧ hullLen p = p.length + 1 ∧ p.length + 1 = u := by
  rw [← tdLengths_eq_iff cells hullLen i u hu]
  simp only [tdSameLength, mem_tdFlatnonzero, List.length_map, tdLengths_length]
  constructor
  · rintro ⟨hi, h⟩
    refine ⟨hi, ?_⟩
    rw [List.getD_eq_getElem?_getD, List.getElem?_eq_getElem (by simp [tdLengths_length, hi])] at h
    simp only [List.getElem_map, Option.getD_some, beq_iff_eq] at h
    rw [List.getD_eq_getElem?_getD, List.getElem?_eq_getElem (by simp [tdLengths_length, hi])]
    simpa using h
  · rintro ⟨hi, h⟩
    refine ⟨hi, ?_⟩
    rw [List.getD_eq_getElem?_getD, List.getElem?_eq_getElem (by simp [tdLengths_length, hi])] at h
    rw [List.getD_eq_getElem?_getD, List.getElem?_eq_getElem (by simp [tdLengths_length, hi])]
    simpa using h

/-- the ear loop: one block per concave cell, tagged with the cell's index -/
theorem tdLoop_ear :
    tdLoopRun ⟨cells, hullLen, isEar, []⟩
        [.each (.flatnonzero (.ne (.numCoords (.convexHull .polygons)) (.numCoords .polygons)))]
        (.toInt (.loopVar 0)) (.earOne (.take .polygons (.loopVar 0)))
      = some ((tdConcave cells hullLen).map fun i =>
          (i, Tri.earClip isEar (tdCellAt cells i).length (tdCellAt cells i))) := by
  simp only [tdLoopRun]
  rw [tdEval_concave]
  simp only
  rw [tdCollect_map_some _ (fun i => [(i, Tri.earClip isEar (tdCellAt cells i).length (tdCellAt cells i))])]
  · rw [td_flatMap_singleton_map]
  · intro i hi
    obtain ⟨p, hp, _⟩ := (mem_tdConcave cells hullLen i).mp hi
    have hc : tdCellAt cells i = p := by simp [tdCellAt, List.getD_eq_getElem?_getD, hp]
    simp [tdEval, TdEnv.push, hp, hc]

/-- the blocks the fan loop writes for one value `u` of `unique_length` -/
def tdFanBlocks (u : Nat) : List TdBlock :=
  if u = 0 then [] else (tdSameLength cells hullLen u).map fun i => (i, .ok (Tri.fan (tdCellAt cells i)))

/-- the fan loop: for every distinct non-zero length, one block per convex cell of that length, tagged with the cell's
index (needs: every polygon has at least 3 vertices — the contract of `_triangulate_polygons_by_length`) -/
theorem tdLoop_fan (hmin : ∀ p, some p ∈ cells → 3 ≤ p.length) :
    tdLoopRun ⟨cells, hullLen, isEar, []⟩
        [.each (.unique triDatasetLengths), .unlessZero (.loopVar 0),
          .zip (.flatnonzero (.eq triDatasetLengths (.loopVar 0)))
            (.fanBatch (.take .polygons (.flatnonzero (.eq triDatasetLengths (.loopVar 0)))))]
        (.toInt (.loopVar 1)) (.loopVar 2)
      = some ((tdUnique (tdLengths cells hullLen)).flatMap (tdFanBlocks cells hullLen)) := by
  rw [tdLoopRun]
  simp only [tdEval, tdEval_lengths]
  apply tdCollect_map_some
  intro u hu
  rcases Nat.eq_zero_or_pos u with rfl | hpos
  · simp [tdLoopRun, tdEval, TdEnv.push, tdFanBlocks]
  · obtain ⟨k, rfl⟩ : ∃ k, u = k + 1 := ⟨u - 1, by omega⟩
    have hu0 : k + 1 ≠ 0 := by omega
    -- the members of the batch
    have hmem := mem_tdSameLength cells hullLen (k + 1)
    have hidx : ∀ i ∈ tdSameLength cells hullLen (k + 1), i < cells.length := by
      intro i hi
      obtain ⟨p, hp, _⟩ := (hmem i hu0).mp hi
      rcases Nat.lt_or_ge i cells.length with h | h
      · exact h
      · simp [List.getElem?_eq_none h] at hp
    have hne : tdSameLength cells hullLen (k + 1) ≠ [] := by
      have : k + 1 ∈ tdLengths cells hullLen := (mem_tdUnique _ _).mp hu
      obtain ⟨i, hi, hget⟩ := List.getElem_of_mem this
      have hi' : i < cells.length := by simpa [tdLengths_length] using hi
      have : i ∈ tdSameLength cells hullLen (k + 1) := by
        rw [hmem i hu0, ← tdLengths_eq_iff cells hullLen i (k + 1) hu0]
        refine ⟨hi', ?_⟩
        rw [List.getD_eq_getElem?_getD, List.getElem?_eq_getElem hi, hget]; rfl
      exact List.ne_nil_of_mem this
    have hbatch : tdFanBatch ((tdSameLength cells hullLen (k + 1)).map fun i => cells.getD i none)
        = some ((tdSameLength cells hullLen (k + 1)).map fun i => Tri.fan (tdCellAt cells i)) := by
      rw [tdFanBatch_uniform _ k ?_ (by simpa using hne) ?_, List.map_map]
      · rfl
      · obtain ⟨i, hi⟩ := List.exists_mem_of_ne_nil _ hne
        obtain ⟨p, hp, _, hlen⟩ := (hmem i hu0).mp hi
        have := hmin p (List.mem_of_getElem? hp)
        omega
      · intro q hq
        obtain ⟨i, hi, rfl⟩ := List.mem_map.mp hq
        obtain ⟨p, hp, _, hlen⟩ := (hmem i hu0).mp hi
        exact ⟨p, by simp [List.getD_eq_getElem?_getD, hp], by omega⟩
    have hS : tdFlatnonzero (List.map (fun x => x == k + 1) (tdLengths cells hullLen))
        = tdSameLength cells hullLen (k + 1) := rfl
    simp only [tdLoopRun, tdEval, TdEnv.push, List.nil_append, List.getElem?_cons_zero, tdEval_lengths, hS,
      tdTake_some cells none _ hidx, Option.map_some, hbatch]
    rw [td_zip_map_self]
    rw [List.map_map]
    rw [tdCollect_map_some _ (fun i => [(i, .ok (Tri.fan (tdCellAt cells i)))])]
    · rw [td_flatMap_singleton_map]
      simp [tdFanBlocks, tdSameLength]
    · intro i _
      simp

/-- all blocks the declared program writes -/
def tdBlocks : List TdBlock :=
  (tdUnique (tdLengths cells hullLen)).flatMap (tdFanBlocks cells hullLen) ++
    (tdConcave cells hullLen).map fun i => (i, Tri.earClip isEar (tdCellAt cells i).length (tdCellAt cells i))

theorem tdRun_declared (hmin : ∀ p, some p ∈ cells → 3 ≤ p.length) :
    tdRun ⟨cells, hullLen, isEar, []⟩ triDatasetLoops = some (tdBlocks cells hullLen isEar) := by
  simp only [tdRun, triDatasetLoops, List.map_cons, List.map_nil, tdLoop_fan cells hullLen isEar hmin,
    tdLoop_ear cells hullLen isEar]
  simp [tdCollect, allSomeL, tdBlocks]

/-- the hull test of `triangulate_dataset`: as many hull coordinates as cell coordinates -/
def tdIsConvex (p : List Tri.Pt) : Bool := hullLen p == p.length + 1

theorem tdFanBlocks_filter (u j : Nat) :
    (tdFanBlocks cells hullLen u).filter (fun b => b.1 == j)
      = if u ≠ 0 ∧ j ∈ tdSameLength cells hullLen u then [(j, .ok (Tri.fan (tdCellAt cells j)))] else [] := by
  unfold tdFanBlocks
  by_cases hu : u = 0
  · simp [hu]
  · simp only [hu, if_false, ne_eq, not_false_eq_true, true_and]
    exact tdFlatnonzero_map_filter _ j _

/-- **per cell**: the blocks tagged `j` are exactly one block holding what the model prescribes for cell `j` (the fan
where the hull test says convex, ear clipping otherwise); a cell without geometry gets none; every tag is a cell index -/
theorem tdBlocks_spec :
    (∀ j p, cells[j]? = some (some p) →
      (tdBlocks cells hullLen isEar).filter (fun b => b.1 == j)
        = [(j, Tri.triangulateCell (tdIsConvex hullLen) isEar p)]) ∧
    (∀ j, cells[j]? = some none → (tdBlocks cells hullLen isEar).filter (fun b => b.1 == j) = []) ∧
    (∀ b ∈ tdBlocks cells hullLen isEar, b.1 < cells.length) := by
  have hfan : ∀ j, ((tdUnique (tdLengths cells hullLen)).flatMap (tdFanBlocks cells hullLen)).filter (fun b => b.1 == j)
      = match cells[j]? with
        | some (some p) => if hullLen p = p.length + 1 then [(j, .ok (Tri.fan p))] else []
        | _ => [] := by
    intro j
    rw [List.filter_flatMap]
    simp only [tdFanBlocks_filter]
    cases hc : cells[j]? with
    | none =>
      simp only
      apply List.flatMap_eq_nil_iff.mpr
      intro u _
      by_cases hu : u = 0
      · simp [hu]
      · have : j ∉ tdSameLength cells hullLen u := by
          rw [mem_tdSameLength cells hullLen u j hu]; simp [hc]
        simp [this]
    | some c =>
      cases c with
      | none =>
        simp only
        apply List.flatMap_eq_nil_iff.mpr
        intro u _
        by_cases hu : u = 0
        · simp [hu]
        · have : j ∉ tdSameLength cells hullLen u := by
            rw [mem_tdSameLength cells hullLen u j hu]; simp [hc]
          simp [this]
      | some p =>
        simp only
        have hcell : tdCellAt cells j = p := by simp [tdCellAt, List.getD_eq_getElem?_getD, hc]
        by_cases hcv : hullLen p = p.length + 1
        · -- exactly the length `p.length + 1` contributes
          rw [tdUnique, td_flatMap_range_filter_single _ _ _ (p.length + 1)]
          · have hmemS : j ∈ tdSameLength cells hullLen (p.length + 1) :=
              (mem_tdSameLength cells hullLen _ j (by omega)).mpr ⟨p, hc, hcv, rfl⟩
            have hj : j < cells.length := by
              rcases Nat.lt_or_ge j cells.length with h | h
              · exact h
              · simp [List.getElem?_eq_none h] at hc
            have hin : p.length + 1 ∈ tdLengths cells hullLen := by
              have := (tdLengths_eq_iff cells hullLen j (p.length + 1) (by omega)).mpr ⟨p, hc, hcv, rfl⟩
              have hlt : j < (tdLengths cells hullLen).length := by simpa [tdLengths_length] using this.1
              rw [List.getD_eq_getElem?_getD, List.getElem?_eq_getElem hlt] at this
              have h2 : (tdLengths cells hullLen)[j] = p.length + 1 := by simpa using this.2
              exact h2 ▸ List.getElem_mem hlt
            have hlt : p.length + 1 < (tdLengths cells hullLen).foldl max 0 + 1 :=
              Nat.lt_succ_of_le (td_le_foldl_max _ 0 _ (Or.inl hin))
            simp [hlt, hin, hmemS, hcell, hcv]
          · intro u hne
            by_cases hu : u = 0
            · simp [hu]
            · have : j ∉ tdSameLength cells hullLen u := by
                rw [mem_tdSameLength cells hullLen u j hu]
                rintro ⟨q, hq, _, hlen⟩
                rw [hc] at hq
                cases Option.some.inj (Option.some.inj hq)
                exact hne hlen.symm
              simp [this]
        · simp only [hcv, if_false]
          apply List.flatMap_eq_nil_iff.mpr
          intro u _
          by_cases hu : u = 0
          · simp [hu]
          · have : j ∉ tdSameLength cells hullLen u := by
              rw [mem_tdSameLength cells hullLen u j hu]
              rintro ⟨q, hq, hq2, _⟩
              rw [hc] at hq
              cases Option.some.inj (Option.some.inj hq)
              exact hcv hq2
            simp [this]
  have hear : ∀ j, ((tdConcave cells hullLen).map fun i =>
        ((i, Tri.earClip isEar (tdCellAt cells i).length (tdCellAt cells i)) : TdBlock)).filter (fun b => b.1 == j)
      = if j ∈ tdConcave cells hullLen then [(j, Tri.earClip isEar (tdCellAt cells j).length (tdCellAt cells j))]
        else [] := by
    intro j
    exact tdFlatnonzero_map_filter _ j _
  refine ⟨?_, ?_, ?_⟩
  · intro j p hc
    have hcell : tdCellAt cells j = p := by simp [tdCellAt, List.getD_eq_getElem?_getD, hc]
    rw [tdBlocks, List.filter_append, hfan j, hear j, hc]
    simp only
    by_cases hcv : hullLen p = p.length + 1
    · have hnc : j ∉ tdConcave cells hullLen := by
        rw [mem_tdConcave]
        rintro ⟨q, hq, hne⟩
        rw [hc] at hq
        cases Option.some.inj (Option.some.inj hq)
        exact hne hcv
      simp [hcv, hnc, Tri.triangulateCell, tdIsConvex]
    · have hmc : j ∈ tdConcave cells hullLen := (mem_tdConcave cells hullLen j).mpr ⟨p, hc, hcv⟩
      simp [hcv, hmc, Tri.triangulateCell, tdIsConvex, hcell]
  · intro j hc
    have hnc : j ∉ tdConcave cells hullLen := by
      rw [mem_tdConcave]; simp [hc]
    rw [tdBlocks, List.filter_append, hfan j, hear j, hc]
    simp [hnc]
  · intro b hb
    rw [tdBlocks, List.mem_append] at hb
    rcases hb with hb | hb
    · obtain ⟨u, _, hbu⟩ := List.mem_flatMap.mp hb
      unfold tdFanBlocks at hbu
      by_cases hu : u = 0
      · simp [hu] at hbu
      · simp only [hu, if_false] at hbu
        obtain ⟨i, hi, rfl⟩ := List.mem_map.mp hbu
        obtain ⟨p, hp, _⟩ := (mem_tdSameLength cells hullLen u i hu).mp hi
        rcases Nat.lt_or_ge i cells.length with h | h
        · exact h
        · simp [List.getElem?_eq_none h] at hp
    · obtain ⟨i, hi, rfl⟩ := List.mem_map.mp hb
      obtain ⟨p, hp, _⟩ := (mem_tdConcave cells hullLen i).mp hi
      rcases Nat.lt_or_ge i cells.length with h | h
      · exact h
      · simp [List.getElem?_eq_none h] at hp

/-! ### the row count -/

theorem td_range_filter_getD {α : Type} (d : α) (P : α → Bool) : ∀ l : List α,
    ((List.range l.length).filter (fun i => P (l.getD i d))).map (fun i => l.getD i d) = l.filter P
  | [] => rfl
  | a :: l => by
    have ih := td_range_filter_getD d P l
    rw [List.length_cons, List.range_succ_eq_map, List.filter_cons, List.filter_map, List.filter_cons]
    by_cases ha : P a = true
    · simp only [List.getD_cons_zero, ha, if_true, List.map_cons, List.map_map, List.cons.injEq, true_and]
      rw [← ih]
      rfl
    · simp only [List.getD_cons_zero, ha, Bool.false_eq_true, if_false, List.map_map]
      rw [← ih]
      rfl

theorem td_sum_lengths_total : ∀ cells : List (Option (List Tri.Pt)),
    (((cells.map tdPolyLen).filter (· != 0)).map (· - 3)).sum = Tri.totalTriangles cells
  | [] => rfl
  | none :: rest => by simpa [tdPolyLen, Tri.totalTriangles] using td_sum_lengths_total rest
  | some p :: rest => by
    have ih := td_sum_lengths_total rest
    simp only [List.map_cons, tdPolyLen, Tri.totalTriangles]
    rw [List.filter_cons]
    simp only [bne_iff_ne, ne_eq, Nat.add_eq_zero_iff, Nat.succ_ne_self, and_false, not_false_eq_true, decide_true,
      if_true, List.map_cons, List.sum_cons]
    rw [ih]
    omega

/-- `total_triangles` is the model's `totalTriangles` -/
theorem tdEval_total (vars : List TdVal) :
    tdEval ⟨cells, hullLen, isEar, vars⟩ triDatasetTotal = some (.nat (Tri.totalTriangles cells)) := by
  have hidx : ∀ i ∈ tdFlatnonzero ((cells.map tdPolyLen).map (· != 0)), i < (cells.map tdPolyLen).length := by
    intro i hi
    simpa using ((mem_tdFlatnonzero _ i).mp hi).1
  unfold triDatasetTotal
  simp only [tdEval, tdTake_some (cells.map tdPolyLen) 0 _ hidx, Option.map_some]
  congr 2
  rw [← td_sum_lengths_total cells, ← td_range_filter_getD 0 (· != 0) (cells.map tdPolyLen)]
  simp only [tdFlatnonzero, List.length_map]
  congr 3
  apply List.filter_congr
  intro i hi
  have hi' : i < cells.length := by simpa using hi
  simp [List.getD_eq_getElem?_getD, hi']

end

end Ems
