import EmsModel.Core.Mask
/-! Lemmas about two-dimensional boolean masks (`Core/Mask.lean`). Core Lean only. -/
set_option linter.unusedSimpArgs false
namespace Ems.Clip
namespace Mask

@[simp] theorem ofFn_ny (ny nx : Nat) (f : Nat → Nat → Bool) : (ofFn ny nx f).ny = ny := rfl
@[simp] theorem ofFn_nx (ny nx : Nat) (f : Nat → Nat → Bool) : (ofFn ny nx f).nx = nx := rfl

theorem get_ofFn (ny nx : Nat) (f : Nat → Nat → Bool) (j i : Nat) :
    (ofFn ny nx f).get j i = (decide (j < ny) && (decide (i < nx) && f j i)) := by
  unfold get ofFn
  by_cases hj : j < ny
  · by_cases hi : i < nx
    · simp [List.getD_eq_getElem?_getD, hj, hi]
    · simp [hi]
  · simp [hj]

theorem get_lt_ny {m : Mask} {j i : Nat} (h : m.get j i = true) : j < m.ny := by
  unfold get at h; simp at h; exact h.1

theorem get_lt_nx {m : Mask} {j i : Nat} (h : m.get j i = true) : i < m.nx := by
  unfold get at h; simp at h; exact h.2.1

/-- two `ofFn` arrays agreeing on every in-range position are equal -/
theorem ofFn_congr {ny nx : Nat} {f g : Nat → Nat → Bool}
    (h : ∀ j i, j < ny → i < nx → f j i = g j i) : ofFn ny nx f = ofFn ny nx g := by
  unfold ofFn
  congr 1
  apply List.map_congr_left
  intro j hj
  apply List.map_congr_left
  intro i hi
  exact h j i (List.mem_range.mp hj) (List.mem_range.mp hi)

theorem get_pad (m : Mask) (bj aj bi ai j i : Nat) :
    (m.pad bj aj bi ai).get j i = (decide (bj ≤ j) && (decide (bi ≤ i) && m.get (j - bj) (i - bi))) := by
  unfold pad
  rw [get_ofFn]
  by_cases h1 : bj ≤ j
  · by_cases h2 : bi ≤ i
    · by_cases h3 : m.get (j - bj) (i - bi) = true
      · have := get_lt_ny h3
        have := get_lt_nx h3
        have e1 : j < bj + m.ny + aj := by omega
        have e2 : i < bi + m.nx + ai := by omega
        simp [h1, h2, h3, e1, e2]
      · simp [h3]
    · simp [h2]
  · simp [h1]

theorem anyWindow_iff (m : Mask) (j0 i0 h w : Nat) :
    m.anyWindow j0 i0 h w = true ↔ ∃ dj di, dj < h ∧ di < w ∧ m.get (j0 + dj) (i0 + di) = true := by
  unfold anyWindow
  simp only [List.any_eq_true, List.mem_range]
  constructor
  · rintro ⟨dj, hdj, di, hdi, hg⟩; exact ⟨dj, di, hdj, hdi, hg⟩
  · rintro ⟨dj, di, hdj, hdi, hg⟩; exact ⟨dj, hdj, di, hdi, hg⟩

theorem get_blur (m : Mask) (s j i : Nat) :
    (m.blur s).get j i = true ↔
      j < m.ny ∧ i < m.nx ∧ ∃ j' i', j' ≤ j + s ∧ j ≤ j' + s ∧ i' ≤ i + s ∧ i ≤ i' + s ∧ m.get j' i' = true := by
  unfold blur
  rw [get_ofFn]
  simp only [Bool.and_eq_true, decide_eq_true_eq, Bool.or_eq_true, anyWindow_iff, get_pad]
  constructor
  · rintro ⟨hj, hi, h | ⟨dj, di, hdj, hdi, h1, h2, hg⟩⟩
    · exact ⟨hj, hi, j, i, by omega, by omega, by omega, by omega, h⟩
    · exact ⟨hj, hi, j + dj - s, i + di - s, by omega, by omega, by omega, by omega, hg⟩
  · rintro ⟨hj, hi, j', i', h1, h2, h3, h4, hg⟩
    refine ⟨hj, hi, Or.inr ⟨j' + s - j, i' + s - i, by omega, by omega, by omega, by omega, ?_⟩⟩
    have e1 : j + (j' + s - j) - s = j' := by omega
    have e2 : i + (i' + s - i) - s = i' := by omega
    rw [e1, e2]; exact hg

theorem get_or2 (a b : Mask) (j i : Nat) :
    (a.or2 b).get j i = true ↔ j < a.ny ∧ i < a.nx ∧ (a.get j i = true ∨ b.get j i = true) := by
  unfold or2; rw [get_ofFn]; simp

theorem get_pad_iff (m : Mask) (bj aj bi ai j i : Nat) :
    (m.pad bj aj bi ai).get j i = true ↔ bj ≤ j ∧ bi ≤ i ∧ m.get (j - bj) (i - bi) = true := by
  rw [get_pad]; simp

@[simp] theorem pad_ny (m : Mask) (bj aj bi ai : Nat) : (m.pad bj aj bi ai).ny = bj + m.ny + aj := rfl
@[simp] theorem pad_nx (m : Mask) (bj aj bi ai : Nat) : (m.pad bj aj bi ai).nx = bi + m.nx + ai := rfl
@[simp] theorem or2_ny (a b : Mask) : (a.or2 b).ny = a.ny := rfl
@[simp] theorem or2_nx (a b : Mask) : (a.or2 b).nx = a.nx := rfl

theorem smear_ny (m : Mask) (py px : Bool) : (m.smear py px).ny = m.ny + py.toNat := by
  cases py <;> cases px <;> simp [smear, axisPaddings, reduceOr] <;> omega

theorem smear_nx (m : Mask) (py px : Bool) : (m.smear py px).nx = m.nx + px.toNat := by
  cases py <;> cases px <;> simp [smear, axisPaddings, reduceOr] <;> omega

theorem get_smear_ff (m : Mask) (j i : Nat) :
    (m.smear false false).get j i = m.get j i := by
  simp [smear, axisPaddings, reduceOr, get_pad]

theorem get_smear_ft (m : Mask) (j i : Nat) :
    (m.smear false true).get j i = true ↔ (1 ≤ i ∧ m.get j (i - 1) = true) ∨ m.get j i = true := by
  simp only [smear, axisPaddings, reduceOr, get_or2, get_pad_iff, List.flatMap_cons, List.flatMap_nil,
    List.map_cons, List.map_nil, List.append_nil, List.foldl_cons, List.foldl_nil, if_true, if_false,
    Bool.false_eq_true, pad_ny, pad_nx, Bool.and_eq_true, Bool.or_eq_true, decide_eq_true_eq,
    Nat.sub_zero, Nat.zero_le, true_and, Nat.zero_add, Nat.add_zero, List.cons_append, List.nil_append]
  constructor
  · rintro ⟨_, _, h⟩; exact h
  · intro h
    rcases h with ⟨h1, h2⟩ | h2
    · have := get_lt_ny h2; have := get_lt_nx h2
      exact ⟨by omega, by omega, Or.inl ⟨h1, h2⟩⟩
    · have := get_lt_ny h2; have := get_lt_nx h2
      exact ⟨by omega, by omega, Or.inr h2⟩

theorem get_smear_tf (m : Mask) (j i : Nat) :
    (m.smear true false).get j i = true ↔ (1 ≤ j ∧ m.get (j - 1) i = true) ∨ m.get j i = true := by
  simp only [smear, axisPaddings, reduceOr, get_or2, get_pad_iff, List.flatMap_cons, List.flatMap_nil,
    List.map_cons, List.map_nil, List.append_nil, List.foldl_cons, List.foldl_nil, if_true, if_false,
    Bool.false_eq_true, pad_ny, pad_nx, Bool.and_eq_true, Bool.or_eq_true, decide_eq_true_eq,
    Nat.sub_zero, Nat.zero_le, true_and, Nat.zero_add, Nat.add_zero, List.cons_append, List.nil_append]
  constructor
  · rintro ⟨_, _, h⟩; exact h
  · intro h
    rcases h with ⟨h1, h2⟩ | h2
    · have := get_lt_ny h2; have := get_lt_nx h2
      exact ⟨by omega, by omega, Or.inl ⟨h1, h2⟩⟩
    · have := get_lt_ny h2; have := get_lt_nx h2
      exact ⟨by omega, by omega, Or.inr h2⟩

theorem get_smear_tt (m : Mask) (j i : Nat) :
    (m.smear true true).get j i = true ↔
      (1 ≤ j ∧ 1 ≤ i ∧ m.get (j - 1) (i - 1) = true) ∨ (1 ≤ j ∧ m.get (j - 1) i = true) ∨
      (1 ≤ i ∧ m.get j (i - 1) = true) ∨ m.get j i = true := by
  simp only [smear, axisPaddings, reduceOr, get_or2, get_pad_iff, List.flatMap_cons, List.flatMap_nil,
    List.map_cons, List.map_nil, List.append_nil, List.foldl_cons, List.foldl_nil, if_true, if_false,
    Bool.false_eq_true, pad_ny, pad_nx, or2_ny, or2_nx, Bool.and_eq_true, Bool.or_eq_true, decide_eq_true_eq,
    Nat.sub_zero, Nat.zero_le, true_and, Nat.zero_add, Nat.add_zero, List.cons_append, List.nil_append]
  constructor
  · rintro ⟨_, _, (⟨_, _, (⟨_, _, (h | h)⟩ | h)⟩ | h)⟩
    · exact Or.inl h
    · exact Or.inr (Or.inl h)
    · exact Or.inr (Or.inr (Or.inl h))
    · exact Or.inr (Or.inr (Or.inr h))
  · intro h
    rcases h with ⟨h1, h1', h2⟩ | ⟨h1, h2⟩ | ⟨h1, h2⟩ | h2 <;>
      (have := get_lt_ny h2; have := get_lt_nx h2; refine ⟨by omega, by omega, ?_⟩)
    · exact Or.inl ⟨by omega, by omega, Or.inl ⟨by omega, by omega, Or.inl ⟨h1, h1', h2⟩⟩⟩
    · exact Or.inl ⟨by omega, by omega, Or.inl ⟨by omega, by omega, Or.inr ⟨h1, h2⟩⟩⟩
    · exact Or.inl ⟨by omega, by omega, Or.inr ⟨h1, h2⟩⟩
    · exact Or.inr h2


/-- pointwise characterisation of `smear_mask` for all four axis choices at once -/
theorem get_smear (m : Mask) (py px : Bool) (j i : Nat) :
    (m.smear py px).get j i = true ↔
      ∃ dj di, dj ≤ py.toNat ∧ di ≤ px.toNat ∧ dj ≤ j ∧ di ≤ i ∧ m.get (j - dj) (i - di) = true := by
  cases py <;> cases px
  · rw [get_smear_ff]
    constructor
    · intro h; exact ⟨0, 0, by simp, by simp, by omega, by omega, by simpa using h⟩
    · rintro ⟨dj, di, h1, h2, _, _, hg⟩
      simp at h1 h2; subst h1 h2; simpa using hg
  · rw [get_smear_ft]
    constructor
    · rintro (⟨h1, h⟩ | h)
      · exact ⟨0, 1, by simp, by simp, by omega, h1, by simpa using h⟩
      · exact ⟨0, 0, by simp, by simp, by omega, by omega, by simpa using h⟩
    · rintro ⟨dj, di, h1, h2, _, h4, hg⟩
      simp at h1 h2; subst h1
      have : di = 0 ∨ di = 1 := by omega
      rcases this with rfl | rfl
      · exact Or.inr (by simpa using hg)
      · exact Or.inl ⟨h4, by simpa using hg⟩
  · rw [get_smear_tf]
    constructor
    · rintro (⟨h1, h⟩ | h)
      · exact ⟨1, 0, by simp, by simp, h1, by omega, by simpa using h⟩
      · exact ⟨0, 0, by simp, by simp, by omega, by omega, by simpa using h⟩
    · rintro ⟨dj, di, h1, h2, h3, _, hg⟩
      simp at h1 h2; subst h2
      have : dj = 0 ∨ dj = 1 := by omega
      rcases this with rfl | rfl
      · exact Or.inr (by simpa using hg)
      · exact Or.inl ⟨h3, by simpa using hg⟩
  · rw [get_smear_tt]
    constructor
    · rintro (⟨h1, h1', h⟩ | ⟨h1, h⟩ | ⟨h1, h⟩ | h)
      · exact ⟨1, 1, by simp, by simp, h1, h1', h⟩
      · exact ⟨1, 0, by simp, by simp, h1, by omega, by simpa using h⟩
      · exact ⟨0, 1, by simp, by simp, by omega, h1, by simpa using h⟩
      · exact ⟨0, 0, by simp, by simp, by omega, by omega, by simpa using h⟩
    · rintro ⟨dj, di, h1, h2, h3, h4, hg⟩
      simp at h1 h2
      have a : dj = 0 ∨ dj = 1 := by omega
      have b : di = 0 ∨ di = 1 := by omega
      rcases a with rfl | rfl <;> rcases b with rfl | rfl
      · exact Or.inr (Or.inr (Or.inr (by simpa using hg)))
      · exact Or.inr (Or.inr (Or.inl ⟨h4, by simpa using hg⟩))
      · exact Or.inr (Or.inl ⟨h3, by simpa using hg⟩)
      · exact Or.inl ⟨h3, h4, hg⟩

theorem get_reshape (ny nx : Nat) (flat : List Bool) (j i : Nat) :
    (reshape ny nx flat).get j i = true ↔ j < ny ∧ i < nx ∧ flat.getD (j * nx + i) false = true := by
  unfold reshape; rw [get_ofFn]; simp

end Mask

/-- `mask[hits] = True` on a flat array: position `n` ends up set iff it was set or is hit -/
theorem getD_foldl_set (hits : List Nat) : ∀ (acc : List Bool) (n : Nat),
    (hits.foldl (fun acc k => acc.set k true) acc).getD n false = true ↔
      acc.getD n false = true ∨ (n < acc.length ∧ n ∈ hits) := by
  induction hits with
  | nil => intro acc n; simp
  | cons h t ih =>
    intro acc n
    rw [List.foldl_cons, ih]
    simp only [List.length_set, List.getD_eq_getElem?_getD, List.getElem?_set, List.mem_cons]
    by_cases hn : h = n
    · subst hn
      by_cases hl : h < acc.length
      · simp [hl]
      · have : acc[h]? = none := List.getElem?_eq_none (by omega)
        simp [hl, this]
    · simp [hn]
      constructor
      · rintro (h1 | ⟨h1, h2⟩)
        · exact Or.inl h1
        · exact Or.inr ⟨h1, Or.inr h2⟩
      · rintro (h1 | ⟨h1, h2 | h2⟩)
        · exact Or.inl h1
        · exact absurd h2.symm hn
        · exact Or.inr ⟨h1, h2⟩

theorem getD_flatMask (size : Nat) (hits : List Nat) (n : Nat) :
    (flatMask size hits).getD n false = true ↔ n < size ∧ n ∈ hits := by
  unfold flatMask
  rw [getD_foldl_set]
  have h0 : ¬ ((List.replicate size false).getD n false = true) := by
    simp only [List.getD_eq_getElem?_getD, List.getElem?_replicate]
    split <;> simp
  constructor
  · rintro (h | h)
    · exact absurd h h0
    · simpa using h
  · intro h; exact Or.inr (by simpa using h)

theorem lin_lt {ny nx j i : Nat} (hj : j < ny) (hi : i < nx) : j * nx + i < ny * nx := by
  calc j * nx + i < j * nx + nx := by omega
    _ = (j + 1) * nx := by rw [Nat.add_mul, Nat.one_mul]
    _ ≤ ny * nx := Nat.mul_le_mul_right _ hj

/-- pointwise characterisation of the grid clip mask in terms of the hit list -/
theorem get_gridClipMask (ny nx : Nat) (hits : List Nat) (buffer : Int) (j i : Nat) :
    (gridClipMask ny nx hits buffer).get j i = true ↔
      j < ny ∧ i < nx ∧ ∃ j' i', j' < ny ∧ i' < nx ∧
        j' ≤ j + buffer.toNat ∧ j ≤ j' + buffer.toNat ∧ i' ≤ i + buffer.toNat ∧ i ≤ i' + buffer.toNat ∧
        j' * nx + i' ∈ hits := by
  unfold gridClipMask
  by_cases hb : buffer > 0
  · simp only [hb, if_true, Mask.get_blur, Mask.get_reshape, getD_flatMask]
    simp only [Mask.reshape, Mask.ofFn_ny, Mask.ofFn_nx]
    constructor
    · rintro ⟨hj, hi, j', i', h1, h2, h3, h4, hj', hi', _, hm⟩
      exact ⟨hj, hi, j', i', hj', hi', h1, h2, h3, h4, hm⟩
    · rintro ⟨hj, hi, j', i', hj', hi', h1, h2, h3, h4, hm⟩
      exact ⟨hj, hi, j', i', h1, h2, h3, h4, hj', hi', lin_lt hj' hi', hm⟩
  · have h0 : buffer.toNat = 0 := by omega
    simp only [hb, if_false, h0, Nat.add_zero, Mask.get_reshape, getD_flatMask]
    constructor
    · rintro ⟨hj, hi, _, hm⟩
      exact ⟨hj, hi, j, i, hj, hi, Nat.le_refl _, Nat.le_refl _, Nat.le_refl _, Nat.le_refl _, hm⟩
    · rintro ⟨hj, hi, j', i', hj', hi', h1, h2, h3, h4, hm⟩
      have : j' = j := by omega
      have : i' = i := by omega
      subst_vars
      exact ⟨hj, hi, lin_lt hj hi, hm⟩

end Ems.Clip
