import EmsModel.Core.Mask
/-! Lemmas about two-dimensional boolean masks (`Core/Mask.lean`). Core Lean only. -/
namespace Ems.Clip
namespace Mask

@[simp] theorem ofFn_ny (ny nx : Nat) (f : Nat → Nat → Bool) : (ofFn ny nx f).ny = ny := rfl
@[simp] theorem ofFn_nx (ny nx : Nat) (f : Nat → Nat → Bool) : (ofFn ny nx f).nx = nx := rfl

theorem get_ofFn (ny nx : Nat) (f : Nat → Nat → Bool) (j i : Nat) :
    (ofFn ny nx f).get j i = (decide (j < ny) && (decide (i < nx) && f j i)) := by
  unfold get ofFn
  by_cases hj : j < ny
  · by_cases hi : i < nx
    · simp [List.getD_eq_getElem?_getD, List.getElem?_map, List.getElem?_range, hj, hi]
    · simp [hi]
  · simp [hj]

theorem get_lt_ny {m : Mask} {j i : Nat} (h : m.get j i = true) : j < m.ny := by
  unfold get at h; simp at h; exact h.1

theorem get_lt_nx {m : Mask} {j i : Nat} (h : m.get j i = true) : i < m.nx := by
  unfold get at h; simp at h; exact h.2.1

/-- two `ofFn` arrays agreeing on every in-range position are equal -/
theorem ofFn_congr {ny nx : Nat} {f g : Nat → Nat → Bool}
    (h : ∀ j i, j < ny → i < nx → f j i = g j i) : ofFn ny nx f = ofFn ny nx g := by
  unfold ofFn
  congr 1
  apply List.map_congr_left
  intro j hj
  apply List.map_congr_left
  intro i hi
  exact h j i (List.mem_range.mp hj) (List.mem_range.mp hi)

theorem get_pad (m : Mask) (bj aj bi ai j i : Nat) :
    (m.pad bj aj bi ai).get j i = (decide (bj ≤ j) && (decide (bi ≤ i) && m.get (j - bj) (i - bi))) := by
  unfold pad
  rw [get_ofFn]
  by_cases h1 : bj ≤ j
  · by_cases h2 : bi ≤ i
    · by_cases h3 : m.get (j - bj) (i - bi) = true
      · have := get_lt_ny h3
        have := get_lt_nx h3
        have e1 : j < bj + m.ny + aj := by omega
        have e2 : i < bi + m.nx + ai := by omega
        simp [h1, h2, h3, e1, e2]
      · simp [h3]
    · simp [h2]
  · simp [h1]

theorem anyWindow_iff (m : Mask) (j0 i0 h w : Nat) :
    m.anyWindow j0 i0 h w = true ↔ ∃ dj di, dj < h ∧ di < w ∧ m.get (j0 + dj) (i0 + di) = true := by
  unfold anyWindow
  simp only [List.any_eq_true, List.mem_range]
  constructor
  · rintro ⟨dj, hdj, di, hdi, hg⟩; exact ⟨dj, di, hdj, hdi, hg⟩
  · rintro ⟨dj, di, hdj, hdi, hg⟩; exact ⟨dj, hdj, di, hdi, hg⟩

end Mask
end Ems.Clip
