import EmsModel.Core.Geom
import Mathlib.Algebra.Order.Field.Rat
/-! The bounding box of a point list (`Ems.bbox`): every point inside, every side attained.
Kept apart from `Props/C06.lean` so that C19's colour-limit theorem can use it without importing the
polygon pipelines generated from the source (`Gen/Pipelines.lean`). -/
namespace Ems

/-- The reported bounds are the bounding box of the vertices: every vertex lies inside, and
each side is attained by some vertex. -/
theorem bbox_extent (pts : List Pt) (a b c d : Rat) (h : bbox pts = some (a, b, c, d)) :
    (∀ p ∈ pts, a ≤ p.1 ∧ p.1 ≤ c ∧ b ≤ p.2 ∧ p.2 ≤ d) ∧
    (∃ p ∈ pts, p.1 = a) ∧ (∃ p ∈ pts, p.2 = b) ∧ (∃ p ∈ pts, p.1 = c) ∧ (∃ p ∈ pts, p.2 = d) := by
  cases pts with
  | nil => simp [bbox] at h
  | cons p0 ps =>
    simp only [bbox, Option.some.injEq] at h
    -- invariant of the fold
    have inv : ∀ (qs : List Pt) (acc : Rat × Rat × Rat × Rat) (seen : List Pt),
        (∀ p ∈ seen, acc.1 ≤ p.1 ∧ p.1 ≤ acc.2.2.1 ∧ acc.2.1 ≤ p.2 ∧ p.2 ≤ acc.2.2.2) →
        ((∃ p ∈ seen, p.1 = acc.1) ∧ (∃ p ∈ seen, p.2 = acc.2.1) ∧ (∃ p ∈ seen, p.1 = acc.2.2.1) ∧ (∃ p ∈ seen, p.2 = acc.2.2.2)) →
        let r := qs.foldl (fun (b : Rat × Rat × Rat × Rat) q =>
          (min b.1 q.1, min b.2.1 q.2, max b.2.2.1 q.1, max b.2.2.2 q.2)) acc
        (∀ p ∈ seen ++ qs, r.1 ≤ p.1 ∧ p.1 ≤ r.2.2.1 ∧ r.2.1 ≤ p.2 ∧ p.2 ≤ r.2.2.2) ∧
        ((∃ p ∈ seen ++ qs, p.1 = r.1) ∧ (∃ p ∈ seen ++ qs, p.2 = r.2.1) ∧ (∃ p ∈ seen ++ qs, p.1 = r.2.2.1) ∧ (∃ p ∈ seen ++ qs, p.2 = r.2.2.2)) := by
      intro qs
      induction qs with
      | nil => intro acc seen h1 h2; simp only [List.append_nil, List.foldl_nil]; exact ⟨h1, h2⟩
      | cons q qs ih =>
        intro acc seen h1 h2
        have := ih (min acc.1 q.1, min acc.2.1 q.2, max acc.2.2.1 q.1, max acc.2.2.2 q.2) (seen ++ [q])
          (by
            intro p hp
            rcases List.mem_append.mp hp with hp | hp
            · have := h1 p hp
              exact ⟨le_trans (min_le_left _ _) this.1, le_trans this.2.1 (le_max_left _ _),
                le_trans (min_le_left _ _) this.2.2.1, le_trans this.2.2.2 (le_max_left _ _)⟩
            · simp at hp; subst hp
              exact ⟨min_le_right _ _, le_max_right _ _, min_le_right _ _, le_max_right _ _⟩)
          (by
            obtain ⟨⟨p1, hp1, e1⟩, ⟨p2, hp2, e2⟩, ⟨p3, hp3, e3⟩, ⟨p4, hp4, e4⟩⟩ := h2
            refine ⟨?_, ?_, ?_, ?_⟩
            · rcases min_choice acc.1 q.1 with hm | hm
              · exact ⟨p1, by simp [hp1], by simp [hm, e1]⟩
              · exact ⟨q, by simp, by simp [hm]⟩
            · rcases min_choice acc.2.1 q.2 with hm | hm
              · exact ⟨p2, by simp [hp2], by simp [hm, e2]⟩
              · exact ⟨q, by simp, by simp [hm]⟩
            · rcases max_choice acc.2.2.1 q.1 with hm | hm
              · exact ⟨p3, by simp [hp3], by simp [hm, e3]⟩
              · exact ⟨q, by simp, by simp [hm]⟩
            · rcases max_choice acc.2.2.2 q.2 with hm | hm
              · exact ⟨p4, by simp [hp4], by simp [hm, e4]⟩
              · exact ⟨q, by simp, by simp [hm]⟩)
        simpa [List.append_assoc] using this
    have := inv ps (p0.1, p0.2, p0.1, p0.2) [p0] (by simp) (by simp)
    simp only [List.singleton_append] at this
    rw [h] at this
    exact this

end Ems
