import EmsModel.Lemmas.Triangulate
/-! Point-set lemmas: a point of a triangle inherits every half-plane its three vertices
satisfy; separation of fan triangles; the inductive glue of the ear path. -/
namespace Ems.Tri

/-- `cross a b ·` is affine, so on a convex combination it is the same combination. -/
theorem cross_inTri {t : Tri} {q : Pt} (h : InTri t q) (a b : Pt) :
    ∃ l1 l2 l3 : Rat, 0 ≤ l1 ∧ 0 ≤ l2 ∧ 0 ≤ l3 ∧
      cross a b q = l1 * cross a b t.a + l2 * cross a b t.b + l3 * cross a b t.c := by
  obtain ⟨l1, l2, l3, h1, h2, h3, hs, hx, hy⟩ := h
  refine ⟨l1, l2, l3, h1, h2, h3, ?_⟩
  have hl : l3 = 1 - l1 - l2 := by linarith
  subst hl
  simp only [cross]
  rw [hx, hy]
  ring

/-- A half-plane `s · cross a b · ≥ 0` that holds the three vertices holds the triangle. -/
theorem halfplane_inTri {t : Tri} {q : Pt} (h : InTri t q) (s : Rat) (a b : Pt)
    (ha : 0 ≤ s * cross a b t.a) (hb : 0 ≤ s * cross a b t.b) (hc : 0 ≤ s * cross a b t.c) :
    0 ≤ s * cross a b q := by
  obtain ⟨l1, l2, l3, h1, h2, h3, he⟩ := cross_inTri h a b
  rw [he]
  have e : s * (l1 * cross a b t.a + l2 * cross a b t.b + l3 * cross a b t.c)
      = l1 * (s * cross a b t.a) + l2 * (s * cross a b t.b) + l3 * (s * cross a b t.c) := by ring
  rw [e]
  exact add_nonneg (add_nonneg (mul_nonneg h1 ha) (mul_nonneg h2 hb)) (mul_nonneg h3 hc)

theorem halfplane_inTri_neg {t : Tri} {q : Pt} (h : InTri t q) (s : Rat) (a b : Pt)
    (ha : s * cross a b t.a ≤ 0) (hb : s * cross a b t.b ≤ 0) (hc : s * cross a b t.c ≤ 0) :
    s * cross a b q ≤ 0 := by
  have := halfplane_inTri h (-s) a b (by linarith) (by linarith) (by linarith)
  linarith

/-- The vertices of a triangle are points of it. -/
theorem inTri_a (t : Tri) : InTri t t.a := ⟨1, 0, 0, by norm_num, le_refl _, le_refl _, by ring, by ring, by ring⟩
theorem inTri_b (t : Tri) : InTri t t.b := ⟨0, 1, 0, le_refl _, by norm_num, le_refl _, by ring, by ring, by ring⟩
theorem inTri_c (t : Tri) : InTri t t.c := ⟨0, 0, 1, le_refl _, le_refl _, by norm_num, by ring, by ring, by ring⟩

/-! ### fan: containment and separation -/

theorem fan_inCell {s : Rat} {p : List Pt} (hc : ConvexCell s p) {t : Tri} (ht : t ∈ fan p)
    {q : Pt} (hq : InTri t q) : InCell s p q := by
  obtain ⟨ha, hb, hcm⟩ := mem_fan ht
  intro e he
  exact halfplane_inTri hq s e.1 e.2 (hc _ ha e he) (hc _ hb e he) (hc _ hcm e he)

/-- The relation "the two triangles share at most points of one proper line". -/
def MeetInLine (t u : Tri) : Prop :=
  ∃ a b : Pt, a ≠ b ∧ ∀ q, InTri t q → InTri u q → cross a b q = 0

theorem fanFrom_sep (s : Rat) (hs : s ≠ 0) (v0 : Pt) : ∀ l : List Pt,
    l.Pairwise (fun a b => 0 ≤ s * cross v0 a b) → v0 ∉ l →
    (fanFrom v0 l).Pairwise MeetInLine
  | [], _, _ => by simp [fanFrom]
  | [_], _, _ => by simp [fanFrom]
  | a :: b :: rest, hp, hv => by
      simp only [fanFrom]
      have hp' := List.pairwise_cons.mp hp
      refine List.pairwise_cons.mpr ⟨?_, fanFrom_sep s hs v0 (b :: rest) hp'.2
        (fun h => hv (List.mem_cons_of_mem _ h))⟩
      intro u hu
      obtain ⟨hua, hub, huc⟩ := mem_fanFrom hu
      have hrel := fanFrom_rel hp'.2 hu
      -- separating line: through v0 and the second vertex of the later triangle
      refine ⟨v0, u.b, fun h => hv (h ▸ List.mem_cons_of_mem _ hub), ?_⟩
      intro q hq1 hq2
      -- first triangle lies on the non-positive side
      have h1 : s * cross v0 u.b q ≤ 0 := by
        apply halfplane_inTri_neg hq1 s v0 u.b
        · show s * cross v0 u.b v0 ≤ 0
          rw [cross_self_mid]; simp
        · show s * cross v0 u.b a ≤ 0
          have := hp'.1 u.b hub
          rw [cross_swap]; linarith
        · show s * cross v0 u.b b ≤ 0
          rcases List.mem_cons.mp hub with h | h
          · rw [h, cross_self_right]; simp
          · have := (List.pairwise_cons.mp hp'.2).1 u.b h
            rw [cross_swap]; linarith
      -- second triangle lies on the non-negative side
      have h2 : 0 ≤ s * cross v0 u.b q := by
        apply halfplane_inTri hq2 s v0 u.b
        · rw [hua, cross_self_mid]; simp
        · rw [cross_self_right]; simp
        · exact hrel
      have h0 : s * cross v0 u.b q = 0 := le_antisymm h1 h2
      rcases mul_eq_zero.mp h0 with h | h
      · exact absurd h hs
      · exact h

/-! ### fan: cover (every point of the convex cell lies in some fan triangle) -/

/-- Barycentric reconstruction: `area2 · q = cross(b,c,q)·a + cross(c,a,q)·b + cross(a,b,q)·c`. -/
theorem bary_x (a b c q : Pt) :
    cross a b c * q.x = cross b c q * a.x + cross c a q * b.x + cross a b q * c.x := by
  simp only [cross]; ring

theorem bary_y (a b c q : Pt) :
    cross a b c * q.y = cross b c q * a.y + cross c a q * b.y + cross a b q * c.y := by
  simp only [cross]; ring

theorem bary_sum (a b c q : Pt) :
    cross b c q + cross c a q + cross a b q = cross a b c := by
  simp only [cross]; ring

theorem cross_swap12 (a b q : Pt) : cross a b q = - cross b a q := by
  simp only [cross]; ring

/-- A point on the inner side of the three edges of a non-degenerate triangle is a
convex combination of its vertices. -/
theorem inTri_of_sides (s : Rat) (t : Tri) (q : Pt) (hpos : 0 < s * t.area2)
    (h1 : 0 ≤ s * cross t.b t.c q) (h2 : 0 ≤ s * cross t.c t.a q)
    (h3 : 0 ≤ s * cross t.a t.b q) : InTri t q := by
  have hApos : 0 < s * cross t.a t.b t.c := hpos
  have hA : s * cross t.a t.b t.c ≠ 0 := ne_of_gt hpos
  have hsum : s * cross t.b t.c q + s * cross t.c t.a q + s * cross t.a t.b q
      = s * cross t.a t.b t.c := by
    rw [← bary_sum t.a t.b t.c q]; ring
  refine ⟨s * cross t.b t.c q / (s * cross t.a t.b t.c),
    s * cross t.c t.a q / (s * cross t.a t.b t.c),
    s * cross t.a t.b q / (s * cross t.a t.b t.c),
    div_nonneg h1 (le_of_lt hApos), div_nonneg h2 (le_of_lt hApos),
    div_nonneg h3 (le_of_lt hApos), ?_, ?_, ?_⟩
  · rw [← add_div, ← add_div, hsum]
    exact div_self hA
  · have key : q.x * (s * cross t.a t.b t.c)
        = s * cross t.b t.c q * t.a.x + s * cross t.c t.a q * t.b.x + s * cross t.a t.b q * t.c.x := by
      calc q.x * (s * cross t.a t.b t.c) = s * (cross t.a t.b t.c * q.x) := by ring
        _ = s * (cross t.b t.c q * t.a.x + cross t.c t.a q * t.b.x + cross t.a t.b q * t.c.x) := by
            rw [bary_x]
        _ = _ := by ring
    rw [eq_div_of_mul_eq hA key]; ring
  · have key : q.y * (s * cross t.a t.b t.c)
        = s * cross t.b t.c q * t.a.y + s * cross t.c t.a q * t.b.y + s * cross t.a t.b q * t.c.y := by
      calc q.y * (s * cross t.a t.b t.c) = s * (cross t.a t.b t.c * q.y) := by ring
        _ = s * (cross t.b t.c q * t.a.y + cross t.c t.a q * t.b.y + cross t.a t.b q * t.c.y) := by
            rw [bary_y]
        _ = _ := by ring
    rw [eq_div_of_mul_eq hA key]; ring

/-- Discrete intermediate value: along `a :: l`, a quantity that starts ≥ 0 and ends ≤ 0
changes side between two neighbours, i.e. inside one fan triangle. -/
theorem exists_sign_change (v0 : Pt) (g : Pt → Rat) : ∀ (a : Pt) (l : List Pt) (hl : l ≠ []),
    0 ≤ g a → g (l.getLast hl) ≤ 0 →
    ∃ t ∈ fanFrom v0 (a :: l), 0 ≤ g t.b ∧ g t.c ≤ 0
  | a, [], hl, _, _ => absurd rfl hl
  | a, [b], _, ha, hb => ⟨⟨v0, a, b⟩, by simp [fanFrom], ha, by simpa using hb⟩
  | a, b :: c :: rest, _, ha, hlast => by
      by_cases hb : g b ≤ 0
      · exact ⟨⟨v0, a, b⟩, by simp [fanFrom], ha, hb⟩
      · have hb' : 0 ≤ g b := le_of_lt (not_le.mp hb)
        obtain ⟨t, ht, h1, h2⟩ := exists_sign_change v0 g b (c :: rest) (by simp) hb'
          (by simpa [List.getLast_cons] using hlast)
        exact ⟨t, List.mem_cons_of_mem _ ht, h1, h2⟩

/-- The second and third vertex of a fan triangle span an edge of the path. -/
theorem fanFrom_edge (v0 : Pt) : ∀ (a : Pt) (l z : List Pt) (t : Tri), t ∈ fanFrom v0 (a :: l) →
    (t.b, t.c) ∈ (a :: l).zip (l ++ z)
  | a, [], z, t, h => by simp [fanFrom] at h
  | a, b :: rest, z, t, h => by
      simp only [fanFrom, List.mem_cons] at h
      rcases h with rfl | h
      · simp
      · have := fanFrom_edge v0 b rest z t h
        simp only [List.cons_append, List.zip_cons_cons, List.mem_cons]
        exact Or.inr this

theorem last_edge (v0 : Pt) : ∀ (a : Pt) (l : List Pt),
    ((a :: l).getLast (by simp), v0) ∈ (a :: l).zip (l ++ [v0])
  | a, [] => by simp
  | a, b :: rest => by
      have := last_edge v0 b rest
      simp only [List.cons_append, List.zip_cons_cons, List.mem_cons, List.getLast_cons_cons]
      exact Or.inr this

/-- Every point of the convex cell lies in some fan triangle, provided no fan triangle
is degenerate (strictly convex cell). -/
theorem fan_cover_aux (s : Rat) (v0 a b : Pt) (rest : List Pt) (q : Pt)
    (hq : ∀ e ∈ (v0, a) :: (a :: b :: rest).zip ((b :: rest) ++ [v0]), 0 ≤ s * cross e.1 e.2 q)
    (hpos : ∀ t ∈ fanFrom v0 (a :: b :: rest), 0 < s * t.area2) :
    ∃ t ∈ fanFrom v0 (a :: b :: rest), InTri t q := by
  have h_first : 0 ≤ s * cross v0 a q := hq (v0, a) List.mem_cons_self
  have h_last : s * cross v0 ((b :: rest).getLast (by simp)) q ≤ 0 := by
    have hm := last_edge v0 a (b :: rest)
    have h := hq _ (List.mem_cons_of_mem _ hm)
    have e : (a :: b :: rest).getLast (by simp) = (b :: rest).getLast (by simp) :=
      List.getLast_cons_cons
    rw [e] at h
    have h' : 0 ≤ s * cross ((b :: rest).getLast (by simp)) v0 q := h
    rw [cross_swap12] at h'
    linarith
  obtain ⟨t, ht, h1, h2⟩ := exists_sign_change v0 (fun v => s * cross v0 v q) a (b :: rest)
    (by simp) h_first h_last
  refine ⟨t, ht, ?_⟩
  obtain ⟨hta, _, _⟩ := mem_fanFrom ht
  have hedge := hq (t.b, t.c) (List.mem_cons_of_mem _ (fanFrom_edge v0 a (b :: rest) [v0] t ht))
  have hside1 : 0 ≤ s * cross t.b t.c q := hedge
  have hside2 : 0 ≤ s * cross t.c t.a q := by
    have h2' : s * cross v0 t.c q ≤ 0 := h2
    rw [hta, cross_swap12]
    linarith
  have hside3 : 0 ≤ s * cross t.a t.b q := by
    have h1' : 0 ≤ s * cross v0 t.b q := h1
    rw [hta]; exact h1'
  exact inTri_of_sides s t q (hpos t ht) hside1 hside2 hside3

/-! ### ear path: inductive glue relative to the oracle's contract -/

/-- What the GEOS ear test promises, relative to a notion `Inside p q` of "q lies in the
closed polygon with vertex list p".  (`covered_by` + boundary met only at the two ends.)
Not proved: this is GEOS behaviour. -/
structure EarContract (Inside : List Pt → Pt → Prop) (isEar : List Pt → Nat → Bool) : Prop where
  /-- a triangle is the region of its own vertex list -/
  tri : ∀ a b c q, InTri ⟨a, b, c⟩ q → Inside [a, b, c] q
  /-- the clipped ear lies in the polygon -/
  ear_inside : ∀ p i t r, isEar p i = true → clipAt p i = some (t, r) →
    ∀ q, InTri t q → Inside p q
  /-- so does what remains -/
  rest_inside : ∀ p i t r, isEar p i = true → clipAt p i = some (t, r) →
    ∀ q, Inside r q → Inside p q
  /-- the ear and the remainder share only points of the diagonal -/
  ear_rest : ∀ p i t r, isEar p i = true → clipAt p i = some (t, r) →
    ∀ q, InTri t q → Inside r q → cross t.a t.c q = 0
  /-- the diagonal is a proper segment -/
  diag : ∀ p i t r, isEar p i = true → clipAt p i = some (t, r) → t.a ≠ t.c

theorem earClip_inside {Inside : List Pt → Pt → Prop} {isEar : List Pt → Nat → Bool}
    (hc : EarContract Inside isEar) : ∀ (fuel : Nat) (p : List Pt) (ts : List Tri),
    earClip isEar fuel p = .ok ts →
    (∀ t ∈ ts, ∀ q, InTri t q → Inside p q) ∧ ts.Pairwise MeetInLine := by
  intro fuel
  induction fuel with
  | zero =>
    intro p ts h
    match p, h with
    | [], h => simp [earClip_short] at h
    | [_], h => simp [earClip_short] at h
    | [_, _], h => simp [earClip_short] at h
    | [a, b, c], h =>
      rw [earClip_tri] at h
      simp only [Except.ok.injEq] at h
      subst h
      exact ⟨by intro t ht q hq; simp at ht; subst ht; exact hc.tri a b c q hq, by simp⟩
    | a :: b :: c :: d :: rest, h => rw [earClip_zero] at h; simp at h
  | succ fuel ih =>
    intro p ts h
    match p, h with
    | [], h => simp [earClip_short] at h
    | [_], h => simp [earClip_short] at h
    | [_, _], h => simp [earClip_short] at h
    | [a, b, c], h =>
      rw [earClip_tri] at h
      simp only [Except.ok.injEq] at h
      subst h
      exact ⟨by intro t ht q hq; simp at ht; subst ht; exact hc.tri a b c q hq, by simp⟩
    | a :: b :: c :: d :: rest, h =>
      rw [earClip_succ] at h
      split at h
      · simp at h
      · rename_i i hfind
        obtain ⟨hear, _⟩ := findEar_some hfind
        split at h
        · simp at h
        · rename_i t p' hclip
          split at h
          · rename_i ts' hrec
            simp only [Except.ok.injEq] at h
            subst h
            obtain ⟨hin, hpw⟩ := ih p' ts' hrec
            refine ⟨?_, List.pairwise_cons.mpr ⟨?_, hpw⟩⟩
            · intro u hu q hq
              rcases List.mem_cons.mp hu with rfl | hu
              · exact hc.ear_inside _ _ _ _ hear hclip q hq
              · exact hc.rest_inside _ _ _ _ hear hclip q (hin u hu q hq)
            · intro u hu
              exact ⟨t.a, t.c, hc.diag _ _ _ _ hear hclip, fun q hq1 hq2 =>
                hc.ear_rest _ _ _ _ hear hclip q hq1 (hin u hu q hq2)⟩
          · simp at h

end Ems.Tri
