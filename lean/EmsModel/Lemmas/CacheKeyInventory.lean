import EmsModel.Core.CacheKeyDataset
/-!
Lemmas/CacheKeyInventory.lean — a variable that the geometry inventory neither finds by its
attributes / dimensions (`candidate`) nor looks up by its name (`lookedUp`) can be inserted
anywhere in `dataset.variables` (or removed) without changing the inventory.
Core Lean only.
-/
namespace Ems.CacheKey

/-- Would the inventory of `spec` pick this variable up by its attributes / dimensions
(rather than by its name)? -/
def candidate : ConvSpec → VarView → Bool
  | .cfGrid lat lon, v => (lat.isNone && isLatitude v) || (lon.isNone && isLongitude v)
  | .shocSimple, v => isShocCoordinate "latitude" v || isShocCoordinate "longitude" v
  | .arakawaC _, _ => false
  | .ugrid _, v => !v.isCoord && v.attr "cf_role" == some "mesh_topology"

def cfLooked (L : Views) (lat lon : String) : List String :=
  [lon, lat] ++ [(L.var? lon).bind (·.attr "bounds"), (L.var? lat).bind (·.attr "bounds")].filterMap id

def coordNames (mesh : VarView) (key : String) : List String :=
  match (mesh.attr key).bind splitCoord with
  | some (x, y) => [x, y]
  | none => []

def ugridLooked (L : Views) : List String :=
  match meshVar L none with
  | none => []
  | some mesh =>
    ["face_node_connectivity", "face_edge_connectivity", "face_face_connectivity",
      "edge_node_connectivity", "edge_face_connectivity"].filterMap mesh.attr
      ++ coordNames mesh "node_coordinates" ++ coordNames mesh "edge_coordinates"
      ++ coordNames mesh "face_coordinates"

/-- The names the inventory of `spec` looks up BY NAME in the dataset. -/
def lookedUp (spec : ConvSpec) (L : Views) : List String :=
  match spec with
  | .cfGrid lat lon =>
    match discover lon isLongitude L, discover lat isLatitude L with
    | some lo, some la => cfLooked L la lo
    | _, _ => []
  | .shocSimple =>
    match shocSimpleFind "latitude" L, shocSimpleFind "longitude" L with
    | some la, some lo => cfLooked L la lo
    | _, _ => []
  | .arakawaC coords => (arakawaOrder.filterMap (fun k => coords.lookup k)).flatten
  | .ugrid _ => ugridLooked L

theorem find?_insert {α} (p : α → Bool) (pre post : List α) (v : α) (hp : p v = false) :
    (pre ++ v :: post).find? p = (pre ++ post).find? p := by
  simp [List.find?_append, hp]

theorem var?_insert (pre post : Views) (v : VarView) (n : String) (h : n ≠ v.name) :
    Views.var? (pre ++ v :: post) n = Views.var? (pre ++ post) n := by
  unfold Views.var?
  apply find?_insert
  simp only [beq_eq_false_iff_ne, ne_eq]
  exact fun e => h e.symm

theorem dataVar?_insert (pre post : Views) (v : VarView) (n : String) (h : n ≠ v.name) :
    Views.dataVar? (pre ++ v :: post) n = Views.dataVar? (pre ++ post) n := by
  unfold Views.dataVar?
  apply find?_insert
  have : (v.name == n) = false := by
    simp only [beq_eq_false_iff_ne, ne_eq]; exact fun e => h e.symm
  simp [this]

theorem cfNames_insert (pre post : Views) (v : VarView) (lat lon : String)
    (hl : ∀ n ∈ cfLooked (pre ++ post) lat lon, n ≠ v.name) :
    cfNames (pre ++ v :: post) lat lon = cfNames (pre ++ post) lat lon := by
  have hlon : lon ≠ v.name := hl lon (by simp [cfLooked])
  have hlat : lat ≠ v.name := hl lat (by simp [cfLooked])
  unfold cfNames
  rw [var?_insert _ _ _ _ hlon, var?_insert _ _ _ _ hlat]
  split
  · rename_i lonV latV h1 h2
    show some ([lon, lat] ++ List.filter _ _) = some ([lon, lat] ++ List.filter _ _)
    congr 2
    apply List.filter_congr
    intro b hb
    rw [var?_insert]
    apply hl
    simp only [cfLooked, h1, h2, Option.bind_some]
    simp at hb ⊢
    right; right
    exact hb
  · rfl

theorem shocSimpleFind_insert (std : String) (v : VarView) (hc : isShocCoordinate std v = false)
    (pre post : Views) : shocSimpleFind std (pre ++ v :: post) = shocSimpleFind std (pre ++ post) := by
  unfold shocSimpleFind
  rw [find?_insert _ _ _ _ hc]

theorem mapM_option_congr {α β} (f g : α → Option β) : ∀ (l : List α), (∀ a ∈ l, f a = g a) →
    l.mapM f = l.mapM g
  | [], _ => rfl
  | a :: l, h => by
    simp only [List.mapM_cons]
    rw [h a (by simp), mapM_option_congr f g l (fun b hb => h b (by simp [hb]))]

theorem arakawaNames_insert (pre post : Views) (v : VarView) (coords : List (String × List String))
    (hl : ∀ n ∈ (arakawaOrder.filterMap (fun k => coords.lookup k)).flatten, n ≠ v.name) :
    arakawaNames (pre ++ v :: post) coords = arakawaNames (pre ++ post) coords := by
  unfold arakawaNames
  congr 1
  apply mapM_option_congr
  intro kind hk
  split
  · rename_i lat lon hlk
    have hmem : ∀ n ∈ [lat, lon], n ≠ v.name := by
      intro n hn
      apply hl
      simp only [List.mem_flatten, List.mem_filterMap]
      exact ⟨[lat, lon], ⟨kind, hk, hlk⟩, hn⟩
    rw [var?_insert _ _ _ _ (hmem lon (by simp)), var?_insert _ _ _ _ (hmem lat (by simp))]
  · rfl

theorem optionalRole_insert (pre post : Views) (v : VarView) (mesh : VarView) (valid : List String)
    (role : String) (hn : ∀ n, mesh.attr role = some n → n ≠ v.name) :
    optionalRole (pre ++ v :: post) mesh valid role = optionalRole (pre ++ post) mesh valid role := by
  unfold optionalRole
  split
  · rename_i n h
    rw [dataVar?_insert _ _ _ _ (hn n h)]
  · rfl

theorem optionalCoords_insert (pre post : Views) (v : VarView) (mesh : VarView) (key : String)
    (hn : ∀ n ∈ coordNames mesh key, n ≠ v.name) :
    optionalCoords (pre ++ v :: post) mesh key = optionalCoords (pre ++ post) mesh key := by
  unfold optionalCoords
  split
  · rfl
  · rename_i s hs
    split
    · rfl
    · rename_i x y hxy
      congr 1
      apply List.filter_congr
      intro n hmem
      rw [var?_insert]
      apply hn
      simp [coordNames, hs, hxy]
      simpa using hmem


theorem meshVar_insert (pre post : Views) (v : VarView)
    (hc : (!v.isCoord && v.attr "cf_role" == some "mesh_topology") = false) :
    meshVar (pre ++ v :: post) none = meshVar (pre ++ post) none := by
  unfold meshVar
  exact find?_insert _ _ _ _ hc

theorem mem_coordNames_of {mesh : VarView} {key : String} {x y : String}
    (h : (mesh.attr key).bind splitCoord = some (x, y)) : coordNames mesh key = [x, y] := by
  simp [coordNames, h]

theorem ugridNames_insert (pre post : Views) (v : VarView) (valid : List String)
    (hc : (!v.isCoord && v.attr "cf_role" == some "mesh_topology") = false)
    (hl : ∀ n ∈ ugridLooked (pre ++ post), n ≠ v.name) :
    ugridNames (pre ++ v :: post) none valid = ugridNames (pre ++ post) none valid := by
  unfold ugridNames
  rw [meshVar_insert _ _ _ hc]
  cases hm : meshVar (pre ++ post) none with
  | none => rfl
  | some mesh =>
    simp only [ugridLooked, hm] at hl
    simp only
    have hattr : ∀ role ∈ ["face_node_connectivity", "face_edge_connectivity", "face_face_connectivity",
        "edge_node_connectivity", "edge_face_connectivity"], ∀ n, mesh.attr role = some n → n ≠ v.name := by
      intro role hr n hn
      apply hl
      simp only [List.mem_append, List.mem_filterMap]
      exact Or.inl (Or.inl (Or.inl ⟨role, hr, hn⟩))
    have hcoord : ∀ key ∈ ["node_coordinates", "edge_coordinates", "face_coordinates"],
        ∀ n ∈ coordNames mesh key, n ≠ v.name := by
      intro key hk n hn
      apply hl
      simp only [List.mem_append]
      simp only [List.mem_cons, List.not_mem_nil, or_false] at hk
      rcases hk with rfl | rfl | rfl
      · exact Or.inl (Or.inl (Or.inr hn))
      · exact Or.inl (Or.inr hn)
      · exact Or.inr hn
    rw [optionalCoords_insert _ _ _ _ _ (hcoord "edge_coordinates" (by simp)),
      optionalCoords_insert _ _ _ _ _ (hcoord "face_coordinates" (by simp)),
      optionalRole_insert _ _ _ _ _ _ (hattr "face_edge_connectivity" (by simp)),
      optionalRole_insert _ _ _ _ _ _ (hattr "face_face_connectivity" (by simp)),
      optionalRole_insert _ _ _ _ _ _ (hattr "edge_node_connectivity" (by simp)),
      optionalRole_insert _ _ _ _ _ _ (hattr "edge_face_connectivity" (by simp))]
    split
    · rename_i fnc nx ny hf hn
      have h1 := hattr "face_node_connectivity" (by simp) fnc hf
      have hcn := mem_coordNames_of hn
      have h2 := hcoord "node_coordinates" (by simp) nx (by simp [hcn])
      have h3 := hcoord "node_coordinates" (by simp) ny (by simp [hcn])
      rw [dataVar?_insert _ _ _ _ h1, var?_insert _ _ _ _ h2, var?_insert _ _ _ _ h3]
    · rfl

/-- Inserting a variable the inventory neither finds by its attributes nor looks up by its
name leaves the inventory alone. -/
theorem inventoryOf_insert (spec : ConvSpec) (pre post : Views) (v : VarView)
    (hc : candidate spec v = false) (hl : ∀ n ∈ lookedUp spec (pre ++ post), n ≠ v.name) :
    inventoryOf spec (pre ++ v :: post) = inventoryOf spec (pre ++ post) := by
  cases spec with
  | cfGrid lat lon =>
    simp only [candidate, Bool.or_eq_false_iff, Bool.and_eq_false_iff] at hc
    have e1 : discover lon isLongitude (pre ++ v :: post) = discover lon isLongitude (pre ++ post) := by
      cases lon with
      | some n => rfl
      | none =>
        have : isLongitude v = false := by simpa using hc.2
        simp only [discover, find?_insert _ _ _ _ this]
    have e2 : discover lat isLatitude (pre ++ v :: post) = discover lat isLatitude (pre ++ post) := by
      cases lat with
      | some n => rfl
      | none =>
        have : isLatitude v = false := by simpa using hc.1
        simp only [discover, find?_insert _ _ _ _ this]
    simp only [inventoryOf, lookedUp] at hl ⊢
    rw [e1, e2]
    split
    · rename_i lo la h1 h2
      simp only [h1, h2] at hl
      exact cfNames_insert _ _ _ _ _ hl
    · rfl
  | shocSimple =>
    simp only [candidate, Bool.or_eq_false_iff] at hc
    simp only [inventoryOf, lookedUp] at hl ⊢
    rw [shocSimpleFind_insert _ _ hc.1, shocSimpleFind_insert _ _ hc.2]
    split
    · rename_i la lo h1 h2
      simp only [h1, h2] at hl
      exact cfNames_insert _ _ _ _ _ hl
    · rfl
  | arakawaC coords =>
    simp only [inventoryOf, lookedUp] at hl ⊢
    exact arakawaNames_insert _ _ _ _ hl
  | ugrid valid =>
    simp only [candidate] at hc
    simp only [inventoryOf, lookedUp] at hl ⊢
    exact ugridNames_insert _ _ _ _ hc hl

end Ems.CacheKey
