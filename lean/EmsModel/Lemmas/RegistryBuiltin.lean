import EmsModel.Core.Registry
import EmsModel.Lemmas.Registry
/-!
Lemmas/RegistryBuiltin.lean — facts about the `check_dataset` models of the shipped classes
and about the generated tables (`Ems.Gen.*`).  The table facts are proved by `decide` on the
*current* tables: an edit of a specificity or of the entry points in `/repo` regenerates the
tables and these proofs are re-checked.
-/
namespace Ems.Reg

/-- a shipped class only ever reports its own specificity -/
theorem builtinCheck_spec (b : Builtin) (f : Features) (s : Nat)
    (h : builtinCheck b f = .ok (some s)) : ownSpec b = some s := by
  cases b with
  | ArakawaC => simp [builtinCheck] at h
  | CFGrid1D =>
    simp only [builtinCheck, cfCheck] at h
    repeat' split at h
    all_goals first | (cases h; done) | (simp at h; try exact h) | skip
    all_goals simp_all
  | CFGrid2D =>
    simp only [builtinCheck, cfCheck] at h
    repeat' split at h
    all_goals first | (cases h; done) | (simp at h; try exact h) | skip
    all_goals simp_all
  | ShocSimple =>
    simp only [builtinCheck, shocSimpleCheck, Except.ok.injEq] at h
    split at h
    · exact h
    · cases h
  | ShocStandard =>
    simp only [builtinCheck, shocStandardCheck, Except.ok.injEq] at h
    split at h
    · exact h
    · cases h
  | UGrid =>
    simp only [builtinCheck, ugridCheck, Except.ok.injEq] at h
    repeat' split at h
    all_goals first | (cases h; done) | exact h

/-- every SHOC class is strictly more specific than every generic CF grid class (generated table) -/
theorem shoc_above_cf (b c : Builtin) (s t : Nat)
    (hb : b = .ShocSimple ∨ b = .ShocStandard) (hc : c = .CFGrid1D ∨ c = .CFGrid2D)
    (hs : ownSpec b = some s) (ht : ownSpec c = some t) : t < s := by
  rcases hb with rfl | rfl <;> rcases hc with rfl | rfl
  · have h : (match ownSpec .ShocSimple, ownSpec .CFGrid1D with
        | some s, some t => decide (t < s) | _, _ => true) = true := by decide
    rw [hs, ht] at h; simpa using h
  · have h : (match ownSpec .ShocSimple, ownSpec .CFGrid2D with
        | some s, some t => decide (t < s) | _, _ => true) = true := by decide
    rw [hs, ht] at h; simpa using h
  · have h : (match ownSpec .ShocStandard, ownSpec .CFGrid1D with
        | some s, some t => decide (t < s) | _, _ => true) = true := by decide
    rw [hs, ht] at h; simpa using h
  · have h : (match ownSpec .ShocStandard, ownSpec .CFGrid2D with
        | some s, some t => decide (t < s) | _, _ => true) = true := by decide
    rw [hs, ht] at h; simpa using h

/-- all six shipped classes are entry points (generated table) -/
theorem builtin_mem_entryPoints (b : Builtin) : Cls.builtin b ∈ entryPointClasses := by
  cases b <;> decide

/-- the SHOC and UGRID classes do report a specificity (generated table) -/
theorem ownSpec_isSome (b : Builtin) (h : b ≠ .ArakawaC) : (ownSpec b).isSome = true := by
  cases b <;> first | (exact absurd rfl h) | decide

theorem mem_filterMap_cls (eps : List EntryPoint) (c : Cls) :
    c ∈ eps.filterMap EntryPoint.cls? ↔ EntryPoint.cls c ∈ eps := by
  rw [List.mem_filterMap]
  constructor
  · rintro ⟨e, he, hc⟩
    cases e with
    | cls c' => simp [EntryPoint.cls?] at hc; subst hc; exact he
    | loadError => simp [EntryPoint.cls?] at hc
    | notConvention => simp [EntryPoint.cls?] at hc
  · intro h; exact ⟨_, h, rfl⟩

theorem filterMap_cls_sublist (eps : List EntryPoint) :
    List.Sublist ((eps.filterMap EntryPoint.cls?).map EntryPoint.cls) eps := by
  induction eps with
  | nil => simp
  | cons e es ih =>
    cases e with
    | cls c => simpa [List.filterMap_cons, EntryPoint.cls?] using ih.cons_cons (EntryPoint.cls c)
    | loadError => simpa [List.filterMap_cons, EntryPoint.cls?] using ih.cons _
    | notConvention => simpa [List.filterMap_cons, EntryPoint.cls?] using ih.cons _

/-- `'needle' in hay` on character lists is the infix relation -/
theorem containsSubL_iff (needle : List Char) : ∀ (hay : List Char),
    containsSubL needle hay = true ↔ ∃ s t, hay = s ++ needle ++ t := by
  intro hay
  induction hay with
  | nil =>
    simp only [containsSubL, List.isEmpty_iff]
    constructor
    · rintro rfl; exact ⟨[], [], rfl⟩
    · rintro ⟨s, t, h⟩
      have := congrArg List.length h
      simp at this
      exact List.eq_nil_of_length_eq_zero (by omega)
  | cons c cs ih =>
    simp only [containsSubL, Bool.or_eq_true, ih, List.isPrefixOf_iff_prefix]
    constructor
    · rintro (⟨t, ht⟩ | ⟨s, t, h⟩)
      · exact ⟨[], t, by simp [ht]⟩
      · exact ⟨c :: s, t, by simp [h]⟩
    · rintro ⟨s, t, h⟩
      cases s with
      | nil => exact Or.inl ⟨t, by simpa using h.symm⟩
      | cons a s =>
        simp only [List.cons_append, List.cons.injEq] at h
        exact Or.inr ⟨s, t, h.2⟩

end Ems.Reg
