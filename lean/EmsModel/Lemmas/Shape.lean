import EmsModel.Core.Shape
/-! Lemmas about row-major ravel / unravel. Core Lean only. -/
namespace Ems

theorem ravel_lt_size : ∀ (s idx : List Nat) (n : Nat), ravel s idx = some n → n < size s
  | [], [], n, h => by simp [ravel] at h; simp [size, ← h]
  | [], _ :: _, n, h => by simp [ravel] at h
  | _ :: _, [], n, h => by simp [ravel] at h
  | d :: ds, i :: is, n, h => by
      simp only [ravel] at h
      split at h
      · rename_i hi
        cases hr : ravel ds is with
        | none => simp [hr] at h
        | some r =>
          simp [hr] at h
          have := ravel_lt_size ds is r hr
          subst h
          simp only [size]
          calc i * size ds + r < i * size ds + size ds := by omega
            _ = (i + 1) * size ds := by rw [Nat.add_mul, Nat.one_mul]
            _ ≤ d * size ds := Nat.mul_le_mul_right _ hi
      · simp at h

theorem ravel_inRange : ∀ (s idx : List Nat) (n : Nat), ravel s idx = some n → InRange s idx
  | [], [], _, _ => trivial
  | [], _ :: _, n, h => by simp [ravel] at h
  | _ :: _, [], n, h => by simp [ravel] at h
  | d :: ds, i :: is, n, h => by
      simp only [ravel] at h
      split at h
      · rename_i hi
        cases hr : ravel ds is with
        | none => simp [hr] at h
        | some r => exact ⟨hi, ravel_inRange ds is r hr⟩
      · simp at h

theorem inRange_ravel : ∀ (s idx : List Nat), InRange s idx → ∃ n, ravel s idx = some n
  | [], [], _ => ⟨0, rfl⟩
  | [], _ :: _, h => by simp [InRange] at h
  | _ :: _, [], h => by simp [InRange] at h
  | d :: ds, i :: is, h => by
      obtain ⟨hi, hr⟩ := h
      obtain ⟨r, hr⟩ := inRange_ravel ds is hr
      exact ⟨i * size ds + r, by simp [ravel, hi, hr]⟩

/-- wind then ravel is the identity -/
theorem ravel_of_unravel : ∀ (s : List Nat) (n : Nat) (idx : List Nat),
    unravel s n = some idx → ravel s idx = some n
  | [], n, idx, h => by
      simp only [unravel] at h
      split at h
      · simp at h; subst h; rename_i h0; subst h0; rfl
      · simp at h
  | d :: ds, n, idx, h => by
      simp only [unravel] at h
      split at h
      · rename_i hn
        cases hu : unravel ds (n % size ds) with
        | none => simp [hu] at h
        | some is =>
          simp [hu] at h
          subst h
          have ih := ravel_of_unravel ds (n % size ds) is hu
          have hdiv : n / size ds < d := by
            apply Nat.div_lt_of_lt_mul
            rw [Nat.mul_comm]; exact hn
          simp only [ravel, hdiv, if_true, ih, Option.map_some]
          congr 1
          rw [Nat.mul_comm]; exact Nat.div_add_mod n (size ds)
      · simp at h

/-- ravel then wind is the identity -/
theorem unravel_of_ravel : ∀ (s idx : List Nat) (n : Nat),
    ravel s idx = some n → unravel s n = some idx
  | [], [], n, h => by simp [ravel] at h; subst h; simp [unravel]
  | [], _ :: _, n, h => by simp [ravel] at h
  | _ :: _, [], n, h => by simp [ravel] at h
  | d :: ds, i :: is, n, h => by
      have hlt := ravel_lt_size _ _ _ h
      simp only [ravel] at h
      split at h
      · rename_i hi
        cases hr : ravel ds is with
        | none => simp [hr] at h
        | some r =>
          simp [hr] at h
          have hrs := ravel_lt_size ds is r hr
          have ih := unravel_of_ravel ds is r hr
          subst h
          have hpos : 0 < size ds := by omega
          have hmod : (i * size ds + r) % size ds = r := by
            rw [Nat.mul_comm, Nat.mul_add_mod]; exact Nat.mod_eq_of_lt hrs
          have hdiv : (i * size ds + r) / size ds = i := by
            rw [Nat.mul_comm, Nat.mul_add_div hpos, Nat.div_eq_of_lt hrs]; rfl
          simp only [size] at hlt
          simp only [unravel, hlt, if_true, hmod, ih, Option.map_some, hdiv]
      · simp at h

theorem unravel_isSome_of_lt : ∀ (s : List Nat) (n : Nat), n < size s → ∃ idx, unravel s n = some idx
  | [], n, h => by
      simp [size] at h; subst h; exact ⟨[], by simp [unravel]⟩
  | d :: ds, n, h => by
      simp only [size] at h
      have hpos : 0 < size ds := by
        rcases Nat.eq_zero_or_pos (size ds) with h0 | h0
        · rw [h0] at h; simp at h
        · exact h0
      obtain ⟨is, his⟩ := unravel_isSome_of_lt ds (n % size ds) (Nat.mod_lt _ hpos)
      exact ⟨(n / size ds) :: is, by simp [unravel, h, his]⟩

theorem unravel_lt_size (s : List Nat) (n : Nat) (idx : List Nat)
    (h : unravel s n = some idx) : n < size s :=
  ravel_lt_size s idx n (ravel_of_unravel s n idx h)

theorem unravel_none_of_ge (s : List Nat) (n : Nat) (h : size s ≤ n) : unravel s n = none := by
  cases hu : unravel s n with
  | none => rfl
  | some idx => have := unravel_lt_size s n idx hu; omega

theorem ravel_none_of_not_inRange (s idx : List Nat) (h : ¬ InRange s idx) : ravel s idx = none := by
  cases hr : ravel s idx with
  | none => rfl
  | some n => exact absurd (ravel_inRange s idx n hr) h

/-- two dimensional row-major formula -/
theorem ravel_2d (ny nx j i : Nat) (hj : j < ny) (hi : i < nx) :
    ravel [ny, nx] [j, i] = some (j * nx + i) := by
  simp [ravel, hj, hi, size]

theorem ravel_1d (n i : Nat) (hi : i < n) : ravel [n] [i] = some i := by
  simp [ravel, hi, size]

/-- Linear order is lexicographic (row-major) order on native indexes. -/
theorem ravel_lex : ∀ (s a b : List Nat) (m n : Nat),
    ravel s a = some m → ravel s b = some n → (LexLt a b ↔ m < n)
  | [], [], [], m, n, ha, hb => by
      simp [ravel] at ha hb; subst ha hb; simp [LexLt]
  | [], _ :: _, _, m, n, ha, hb => by simp [ravel] at ha
  | [], [], _ :: _, m, n, ha, hb => by simp [ravel] at hb
  | _ :: _, [], _, m, n, ha, hb => by simp [ravel] at ha
  | _ :: _, _ :: _, [], m, n, ha, hb => by simp [ravel] at hb
  | d :: ds, i :: is, j :: js, m, n, ha, hb => by
      simp only [ravel] at ha hb
      split at ha
      · split at hb
        · cases hra : ravel ds is with
          | none => simp [hra] at ha
          | some ra =>
            cases hrb : ravel ds js with
            | none => simp [hrb] at hb
            | some rb =>
              simp [hra] at ha; simp [hrb] at hb
              have h1 := ravel_lt_size ds is ra hra
              have h2 := ravel_lt_size ds js rb hrb
              have ih := ravel_lex ds is js ra rb hra hrb
              subst ha hb
              simp only [LexLt]
              constructor
              · rintro (hlt | ⟨heq, hl⟩)
                · calc i * size ds + ra < i * size ds + size ds := by omega
                    _ = (i + 1) * size ds := by rw [Nat.add_mul, Nat.one_mul]
                    _ ≤ j * size ds := Nat.mul_le_mul_right _ hlt
                    _ ≤ j * size ds + rb := Nat.le_add_right _ _
                · subst heq; have := ih.mp hl; omega
              · intro hmn
                rcases Nat.lt_trichotomy i j with hlt | heq | hgt
                · exact Or.inl hlt
                · subst heq; exact Or.inr ⟨rfl, ih.mpr (by omega)⟩
                · exfalso
                  have : j * size ds + rb < i * size ds + ra := by
                    calc j * size ds + rb < j * size ds + size ds := by omega
                      _ = (j + 1) * size ds := by rw [Nat.add_mul, Nat.one_mul]
                      _ ≤ i * size ds := Nat.mul_le_mul_right _ hgt
                      _ ≤ i * size ds + ra := Nat.le_add_right _ _
                  omega
        · simp at hb
      · simp at ha

end Ems
