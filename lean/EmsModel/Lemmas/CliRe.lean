import EmsModel.Lemmas.Cli
/-
Lemmas/CliRe.lean — the language of the syntax tree `boundsAst` (the live pattern text, see
`Ems.C20.pattern_text`) is exactly the declarative grammar `IsBounds`.
-/
namespace Ems.Cli

open Re

def AllDigits (cs : List Char) : Prop := ∀ c ∈ cs, isDigit c = true

theorem isDigit_val {c : Char} (h : isDigit c = true) : ∃ d, digitVal? c = some d := by
  unfold isDigit at h
  cases hd : digitVal? c with
  | none => simp [hd] at h
  | some d => exact ⟨d, rfl⟩

theorem digitRun_of_all : ∀ (cs : List Char), cs ≠ [] → AllDigits cs → ∃ ds, IsDigitRun cs ds
  | [], h, _ => absurd rfl h
  | [c], _, h => by
    obtain ⟨d, hd⟩ := isDigit_val (h c (by simp))
    exact ⟨[d], .one hd⟩
  | c :: c' :: cs, _, h => by
    obtain ⟨d, hd⟩ := isDigit_val (h c (by simp))
    obtain ⟨ds, hr⟩ := digitRun_of_all (c' :: cs) (by simp) (fun x m => h x (List.mem_cons_of_mem _ m))
    exact ⟨d :: ds, .cons hd hr⟩

theorem digitRun_iff (cs : List Char) : (∃ ds, IsDigitRun cs ds) ↔ cs ≠ [] ∧ AllDigits cs :=
  ⟨fun ⟨_, h⟩ => ⟨h.ne_nil, h.all_digit⟩, fun ⟨h1, h2⟩ => digitRun_of_all cs h1 h2⟩

/-! ### stars of a character class -/

theorem star_digit_all {r : Re} {t : List Char} (h : Matches r t) : r = .star .digit → AllDigits t := by
  induction h with
  | starNil => intro _ c m; simp at m
  | starCons h1 _ _ ih2 =>
    intro e
    cases e
    cases h1 with
    | digit hd =>
      intro c m
      rcases List.mem_append.mp m with m | m
      · simp at m; subst m; exact hd
      · exact ih2 rfl c m
  | _ => intro e; cases e

theorem all_star_digit : ∀ (t : List Char), AllDigits t → Matches (.star .digit) t
  | [], _ => .starNil
  | c :: cs, h => by
    have := Matches.starCons (Matches.digit (h c (by simp)))
      (all_star_digit cs (fun x m => h x (List.mem_cons_of_mem _ m)))
    simpa using this

theorem plus_digit_iff (t : List Char) : Matches (.plus .digit) t ↔ ∃ ds, IsDigitRun t ds := by
  rw [digitRun_iff]
  constructor
  · intro h
    cases h with
    | plus h1 h2 =>
      cases h1 with
      | digit hd =>
        refine ⟨by simp, ?_⟩
        intro c m
        rcases List.mem_append.mp m with m | m
        · simp at m; subst m; exact hd
        · exact star_digit_all h2 rfl c m
  · rintro ⟨hne, hall⟩
    cases t with
    | nil => exact absurd rfl hne
    | cons c cs =>
      have := Matches.plus (Matches.digit (hall c (by simp)))
        (all_star_digit cs (fun x m => hall x (List.mem_cons_of_mem _ m)))
      simpa using this

theorem star_space_blank {r : Re} {t : List Char} (h : Matches r t) : r = .star .space → Blank t := by
  induction h with
  | starNil => intro _ c m; simp at m
  | starCons h1 _ _ ih2 =>
    intro e
    cases e
    cases h1 with
    | space hs =>
      intro c m
      rcases List.mem_append.mp m with m | m
      · simp at m; subst m; exact hs
      · exact ih2 rfl c m
  | _ => intro e; cases e

theorem blank_star_space : ∀ (t : List Char), Blank t → Matches (.star .space) t
  | [], _ => .starNil
  | c :: cs, h => by
    have := Matches.starCons (Matches.space (h c (by simp)))
      (blank_star_space cs (fun x m => h x (List.mem_cons_of_mem _ m)))
    simpa using this

theorem star_space_iff (t : List Char) : Matches (.star .space) t ↔ Blank t :=
  ⟨fun h => star_space_blank h rfl, blank_star_space t⟩

/-! ### NUMBER -/

/-- `(?:_\d+)*` -/
inductive IsTail : List Char → Prop
  | nil : IsTail []
  | cons {r ds rest} : IsDigitRun r ds → IsTail rest → IsTail ('_' :: r ++ rest)

def tailRe : Re := .ncgroup (.seq (.chr '_') (.plus .digit))

theorem star_tail {r : Re} {t : List Char} (h : Matches r t) : r = .star tailRe → IsTail t := by
  induction h with
  | starNil => intro _; exact .nil
  | starCons h1 _ _ ih2 =>
    intro e
    cases e
    cases h1 with
    | ncgroup h1 =>
      cases h1 with
      | seq ha hb =>
        cases ha with
        | chr =>
          obtain ⟨ds, hr⟩ := (plus_digit_iff _).mp hb
          have := IsTail.cons hr (ih2 rfl)
          simpa using this
  | _ => intro e; cases e

theorem tail_star {t : List Char} (h : IsTail t) : Matches (.star tailRe) t := by
  induction h with
  | nil => exact .starNil
  | @cons r ds rest hr _ ih =>
    have h1 : Matches tailRe ('_' :: r) := by
      have := Matches.seq (Matches.chr (c := '_')) ((plus_digit_iff r).mpr ⟨ds, hr⟩)
      exact .ncgroup (by simpa using this)
    have := Matches.starCons h1 ih
    simpa using this

theorem isNumber_split {cs : List Char} {ds : List Nat} (h : IsNumber cs ds) :
    ∃ s t, cs = s ++ t ∧ (∃ d, IsDigitRun s d) ∧ IsTail t := by
  induction h with
  | @run cs ds hr => exact ⟨cs, [], by simp, ⟨ds, hr⟩, .nil⟩
  | @more cs ds cs' ds' hr _ ih =>
    obtain ⟨s', t', rfl, ⟨d', hr'⟩, ht'⟩ := ih
    exact ⟨cs, '_' :: s' ++ t', by simp, ⟨ds, hr⟩, .cons hr' ht'⟩

theorem isNumber_join {t : List Char} (ht : IsTail t) :
    ∀ {s : List Char} {d : List Nat}, IsDigitRun s d → ∃ ds, IsNumber (s ++ t) ds := by
  induction ht with
  | nil => intro s d hr; exact ⟨d, by simpa using IsNumber.run hr⟩
  | @cons r dr rest hr' _ ih =>
    intro s d hr
    obtain ⟨ds', hn⟩ := ih hr'
    exact ⟨d ++ ds', by simpa using IsNumber.more hr hn⟩

theorem number_iff (cs : List Char) : Matches numberRe cs ↔ ∃ ds, IsNumber cs ds := by
  constructor
  · intro h
    unfold numberRe at h
    cases h with
    | seq h1 h2 =>
      obtain ⟨d, hr⟩ := (plus_digit_iff _).mp h1
      exact isNumber_join (star_tail h2 rfl) hr
  · rintro ⟨ds, h⟩
    obtain ⟨s, t, rfl, ⟨d, hr⟩, ht⟩ := isNumber_split h
    exact .seq ((plus_digit_iff s).mpr ⟨d, hr⟩) (tail_star ht)

/-! ### DECIMAL -/

def unsignedRe : Re :=
  .alt numberRe (.alt (.seq numberRe (.chr '.')) (.alt (.seq (.chr '.') numberRe)
    (.seq numberRe (.seq (.chr '.') numberRe))))

theorem unsigned_iff (cs : List Char) : Matches unsignedRe cs ↔ ∃ v, IsUnsigned cs v := by
  constructor
  · intro h
    unfold unsignedRe at h
    cases h with
    | altL h =>
      obtain ⟨ds, hn⟩ := (number_iff _).mp h
      exact ⟨_, .int hn⟩
    | altR h =>
      cases h with
      | altL h =>
        cases h with
        | seq h1 h2 =>
          cases h2 with
          | chr =>
            obtain ⟨ds, hn⟩ := (number_iff _).mp h1
            exact ⟨_, .intDot hn⟩
      | altR h =>
        cases h with
        | altL h =>
          cases h with
          | seq h1 h2 =>
            cases h1 with
            | chr =>
              obtain ⟨ds, hn⟩ := (number_iff _).mp h2
              exact ⟨_, by simpa using IsUnsigned.frac hn⟩
        | altR h =>
          cases h with
          | seq h1 h2 =>
            cases h2 with
            | seq h2 h3 =>
              cases h2 with
              | chr =>
                obtain ⟨ds, hn⟩ := (number_iff _).mp h1
                obtain ⟨ds', hn'⟩ := (number_iff _).mp h3
                exact ⟨_, by simpa using IsUnsigned.intFrac hn hn'⟩
  · rintro ⟨v, h⟩
    unfold unsignedRe
    cases h with
    | int hn => exact .altL ((number_iff _).mpr ⟨_, hn⟩)
    | intDot hn => exact .altR (.altL (.seq ((number_iff _).mpr ⟨_, hn⟩) .chr))
    | frac hn =>
      have := Matches.seq (Matches.chr (c := '.')) ((number_iff _).mpr ⟨_, hn⟩)
      exact .altR (.altR (.altL (by simpa using this)))
    | intFrac hn hn' =>
      have := Matches.seq ((number_iff _).mpr ⟨_, hn⟩)
        (Matches.seq (Matches.chr (c := '.')) ((number_iff _).mpr ⟨_, hn'⟩))
      exact .altR (.altR (.altR (by simpa using this)))

theorem decimalRe_eq : decimalRe = .group (.seq (.opt (.chr '-')) (.ncgroup unsignedRe)) := rfl

theorem decimal_iff (cs : List Char) : Matches decimalRe cs ↔ ∃ v, IsDecimal cs v := by
  rw [decimalRe_eq]
  constructor
  · intro h
    cases h with
    | group h =>
      cases h with
      | seq h1 h2 =>
        cases h2 with
        | ncgroup h2 =>
          obtain ⟨v, hu⟩ := (unsigned_iff _).mp h2
          cases h1 with
          | optNone => exact ⟨v, by simpa using IsDecimal.pos hu⟩
          | optSome h1 =>
            cases h1 with
            | chr => exact ⟨-v, by simpa using IsDecimal.neg hu⟩
  · rintro ⟨v, h⟩
    cases h with
    | pos hu =>
      have := Matches.seq (Matches.optNone (a := .chr '-')) (Matches.ncgroup ((unsigned_iff _).mpr ⟨_, hu⟩))
      exact .group (by simpa using this)
    | neg hu =>
      have := Matches.seq (Matches.optSome (Matches.chr (c := '-'))) (Matches.ncgroup ((unsigned_iff _).mpr ⟨_, hu⟩))
      exact .group (by simpa using this)

/-! ### the separator and the whole pattern -/

theorem sep_iff (t : List Char) : Matches sepRe t ↔ ∃ w w', t = w ++ ',' :: w' ∧ Blank w ∧ Blank w' := by
  unfold sepRe
  constructor
  · intro h
    cases h with
    | seq h1 h2 =>
      cases h2 with
      | seq h2 h3 =>
        cases h2 with
        | chr => exact ⟨_, _, by simp, (star_space_iff _).mp h1, (star_space_iff _).mp h3⟩
  · rintro ⟨w, w', rfl, hw, hw'⟩
    have := Matches.seq ((star_space_iff w).mpr hw)
      (Matches.seq (Matches.chr (c := ',')) ((star_space_iff w').mpr hw'))
    simpa using this

theorem boundsAst_iff (s : List Char) : Matches boundsAst s ↔ ∃ b, IsBounds s b := by
  unfold boundsAst
  constructor
  · intro h
    cases h with
    | seq d1 h =>
    cases h with
    | seq s1 h =>
    cases h with
    | seq d2 h =>
    cases h with
    | seq s2 h =>
    cases h with
    | seq d3 h =>
    cases h with
    | seq s3 d4 =>
      obtain ⟨a, ha⟩ := (decimal_iff _).mp d1
      obtain ⟨b, hb⟩ := (decimal_iff _).mp d2
      obtain ⟨c, hc⟩ := (decimal_iff _).mp d3
      obtain ⟨d, hd⟩ := (decimal_iff _).mp d4
      obtain ⟨w1, w2, rfl, hw1, hw2⟩ := (sep_iff _).mp s1
      obtain ⟨w3, w4, rfl, hw3, hw4⟩ := (sep_iff _).mp s2
      obtain ⟨w5, w6, rfl, hw5, hw6⟩ := (sep_iff _).mp s3
      exact ⟨(a, b, c, d), _, _, _, _, w1, w2, w3, w4, w5, w6, by simp [List.append_assoc],
        hw1, hw2, hw3, hw4, hw5, hw6, ha, hb, hc, hd⟩
  · rintro ⟨b, n1, n2, n3, n4, w1, w2, w3, w4, w5, w6, rfl, hw1, hw2, hw3, hw4, hw5, hw6, h1, h2, h3, h4⟩
    have := Matches.seq ((decimal_iff n1).mpr ⟨_, h1⟩) (Matches.seq ((sep_iff _).mpr ⟨w1, w2, rfl, hw1, hw2⟩)
      (Matches.seq ((decimal_iff n2).mpr ⟨_, h2⟩) (Matches.seq ((sep_iff _).mpr ⟨w3, w4, rfl, hw3, hw4⟩)
      (Matches.seq ((decimal_iff n3).mpr ⟨_, h3⟩) (Matches.seq ((sep_iff _).mpr ⟨w5, w6, rfl, hw5, hw6⟩)
      ((decimal_iff n4).mpr ⟨_, h4⟩))))))
    simpa [List.append_assoc] using this

end Ems.Cli
