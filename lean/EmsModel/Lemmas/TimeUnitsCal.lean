import EmsModel.Core.TimeUnits
/-!
Lemmas/TimeUnitsCal.lean — the concrete proleptic Gregorian calendar used by the driver satisfies
`CalLaws`: `gOfSec (gToSec f) = f` for every valid field tuple, and valid fields are in range.
(That this arithmetic *is* what `datetime` computes is checked by the correspondence on every
generated case; here it is shown to be a sound instance of the abstract calendar of the theorems.)
Core Lean only.
-/
namespace Ems.TimeUnits

/-- the 400/100/4/1 decomposition of `y - 1` turns `daysBeforeYear` into a mixed-radix number -/
theorem daysBeforeYear_decomp (y : Int) :
    daysBeforeYear y = 146097 * ((y - 1) / 400) + 36524 * ((y - 1) % 400 / 100) +
      1461 * ((y - 1) % 100 / 4) + 365 * ((y - 1) % 4) := by
  unfold daysBeforeYear
  omega

theorem isLeap_iff (y : Int) : isLeap y = true ↔ (y % 4 = 0 ∧ y % 100 ≠ 0) ∨ y % 400 = 0 := by
  simp [isLeap]

/-- `ofDays` undoes the mixed-radix number (Python's `_ord2ymd`, including its last-day-of-cycle
corrections, here the two `min … 3`) -/
theorem ofDays_mixed (a b c e doy : Int) (hb0 : 0 ≤ b) (hb : b ≤ 3) (hc0 : 0 ≤ c) (hc : c ≤ 24)
    (he0 : 0 ≤ e) (he : e ≤ 3) (hd : 0 ≤ doy)
    (hdoy : doy ≤ 364 ∨ (doy = 365 ∧ e = 3 ∧ (c ≠ 24 ∨ b = 3))) :
    ofDays (146097 * a + 36524 * b + 1461 * c + 365 * e + doy) =
      (400 * a + 100 * b + 4 * c + e + 1,
       (monthDay (isLeap (400 * a + 100 * b + 4 * c + e + 1)) doy.toNat).1,
       (monthDay (isLeap (400 * a + 100 * b + 4 * c + e + 1)) doy.toNat).2) := by
  have h1 : (146097 * a + 36524 * b + 1461 * c + 365 * e + doy) / 146097 = a := by omega
  have h2 : (146097 * a + 36524 * b + 1461 * c + 365 * e + doy) % 146097 = 36524 * b + 1461 * c + 365 * e + doy := by omega
  have h3 : min ((36524 * b + 1461 * c + 365 * e + doy) / 36524) 3 = b := by omega
  have h4 : (36524 * b + 1461 * c + 365 * e + doy) - b * 36524 = 1461 * c + 365 * e + doy := by omega
  have h5 : (1461 * c + 365 * e + doy) / 1461 = c := by omega
  have h6 : (1461 * c + 365 * e + doy) % 1461 = 365 * e + doy := by omega
  have h7 : min ((365 * e + doy) / 365) 3 = e := by omega
  have h8 : (365 * e + doy) - e * 365 = doy := by omega
  simp only [ofDays, h1, h2, h3, h4, h5, h6, h7, h8]

theorem daysInMonth_eq (y : Int) (m : Nat) (hm1 : 1 ≤ m) (hm : m ≤ 12) :
    cum (isLeap y) m + daysInMonth y m = cum (isLeap y) (m + 1) := by
  have : m = 1 ∨ m = 2 ∨ m = 3 ∨ m = 4 ∨ m = 5 ∨ m = 6 ∨ m = 7 ∨ m = 8 ∨ m = 9 ∨ m = 10 ∨ m = 11 ∨ m = 12 := by omega
  rcases this with h | h | h | h | h | h | h | h | h | h | h | h <;> subst h <;>
    cases hl : isLeap y <;> simp [cum, daysInMonth, hl]

theorem cum_succ_le (leap : Bool) (m : Nat) (hm1 : 1 ≤ m) (hm : m ≤ 12) :
    cum leap (m + 1) ≤ 365 + (if leap then 1 else 0) := by
  have : m = 1 ∨ m = 2 ∨ m = 3 ∨ m = 4 ∨ m = 5 ∨ m = 6 ∨ m = 7 ∨ m = 8 ∨ m = 9 ∨ m = 10 ∨ m = 11 ∨ m = 12 := by omega
  rcases this with h | h | h | h | h | h | h | h | h | h | h | h <;> subst h <;> cases leap <;> simp [cum]

theorem daysInMonth_le (y : Int) (m : Nat) : daysInMonth y m ≤ 31 := by
  unfold daysInMonth
  repeat' split
  all_goals omega

theorem monthDay_cum (leap : Bool) (m d : Nat) (hm1 : 1 ≤ m) (hm : m ≤ 12) (hd1 : 1 ≤ d)
    (hd : cum leap m + d ≤ cum leap (m + 1)) : monthDay leap (cum leap m + d - 1) = (m, d) := by
  have : m = 1 ∨ m = 2 ∨ m = 3 ∨ m = 4 ∨ m = 5 ∨ m = 6 ∨ m = 7 ∨ m = 8 ∨ m = 9 ∨ m = 10 ∨ m = 11 ∨ m = 12 := by omega
  rcases this with h | h | h | h | h | h | h | h | h | h | h | h <;> subst h <;> cases leap <;>
    simp [cum] at hd <;> simp only [monthDay, cum, if_true, if_false, Bool.false_eq_true, Nat.add_zero]
  · rw [if_pos (by omega)]; simp only [Prod.mk.injEq, true_and]; omega
  · rw [if_pos (by omega)]; simp only [Prod.mk.injEq, true_and]; omega
  · rw [if_neg (by omega), if_pos (by omega)]; simp only [Prod.mk.injEq, true_and]; omega
  · rw [if_neg (by omega), if_pos (by omega)]; simp only [Prod.mk.injEq, true_and]; omega
  · rw [if_neg (by omega), if_neg (by omega), if_pos (by omega)]; simp only [Prod.mk.injEq, true_and]; omega
  · rw [if_neg (by omega), if_neg (by omega), if_pos (by omega)]; simp only [Prod.mk.injEq, true_and]; omega
  · rw [if_neg (by omega), if_neg (by omega), if_neg (by omega), if_pos (by omega)]; simp only [Prod.mk.injEq, true_and]; omega
  · rw [if_neg (by omega), if_neg (by omega), if_neg (by omega), if_pos (by omega)]; simp only [Prod.mk.injEq, true_and]; omega
  · rw [if_neg (by omega), if_neg (by omega), if_neg (by omega), if_neg (by omega), if_pos (by omega)]; simp only [Prod.mk.injEq, true_and]; omega
  · rw [if_neg (by omega), if_neg (by omega), if_neg (by omega), if_neg (by omega), if_pos (by omega)]; simp only [Prod.mk.injEq, true_and]; omega
  · rw [if_neg (by omega), if_neg (by omega), if_neg (by omega), if_neg (by omega), if_neg (by omega), if_pos (by omega)]; simp only [Prod.mk.injEq, true_and]; omega
  · rw [if_neg (by omega), if_neg (by omega), if_neg (by omega), if_neg (by omega), if_neg (by omega), if_pos (by omega)]; simp only [Prod.mk.injEq, true_and]; omega
  · rw [if_neg (by omega), if_neg (by omega), if_neg (by omega), if_neg (by omega), if_neg (by omega), if_neg (by omega), if_pos (by omega)]; simp only [Prod.mk.injEq, true_and]; omega
  · rw [if_neg (by omega), if_neg (by omega), if_neg (by omega), if_neg (by omega), if_neg (by omega), if_neg (by omega), if_pos (by omega)]; simp only [Prod.mk.injEq, true_and]; omega
  · rw [if_neg (by omega), if_neg (by omega), if_neg (by omega), if_neg (by omega), if_neg (by omega), if_neg (by omega), if_neg (by omega), if_pos (by omega)]; simp only [Prod.mk.injEq, true_and]; omega
  · rw [if_neg (by omega), if_neg (by omega), if_neg (by omega), if_neg (by omega), if_neg (by omega), if_neg (by omega), if_neg (by omega), if_pos (by omega)]; simp only [Prod.mk.injEq, true_and]; omega
  · rw [if_neg (by omega), if_neg (by omega), if_neg (by omega), if_neg (by omega), if_neg (by omega), if_neg (by omega), if_neg (by omega), if_neg (by omega), if_pos (by omega)]; simp only [Prod.mk.injEq, true_and]; omega
  · rw [if_neg (by omega), if_neg (by omega), if_neg (by omega), if_neg (by omega), if_neg (by omega), if_neg (by omega), if_neg (by omega), if_neg (by omega), if_pos (by omega)]; simp only [Prod.mk.injEq, true_and]; omega
  · rw [if_neg (by omega), if_neg (by omega), if_neg (by omega), if_neg (by omega), if_neg (by omega), if_neg (by omega), if_neg (by omega), if_neg (by omega), if_neg (by omega), if_pos (by omega)]; simp only [Prod.mk.injEq, true_and]; omega
  · rw [if_neg (by omega), if_neg (by omega), if_neg (by omega), if_neg (by omega), if_neg (by omega), if_neg (by omega), if_neg (by omega), if_neg (by omega), if_neg (by omega), if_pos (by omega)]; simp only [Prod.mk.injEq, true_and]; omega
  · rw [if_neg (by omega), if_neg (by omega), if_neg (by omega), if_neg (by omega), if_neg (by omega), if_neg (by omega), if_neg (by omega), if_neg (by omega), if_neg (by omega), if_neg (by omega), if_pos (by omega)]; simp only [Prod.mk.injEq, true_and]; omega
  · rw [if_neg (by omega), if_neg (by omega), if_neg (by omega), if_neg (by omega), if_neg (by omega), if_neg (by omega), if_neg (by omega), if_neg (by omega), if_neg (by omega), if_neg (by omega), if_pos (by omega)]; simp only [Prod.mk.injEq, true_and]; omega
  · rw [if_neg (by omega), if_neg (by omega), if_neg (by omega), if_neg (by omega), if_neg (by omega), if_neg (by omega), if_neg (by omega), if_neg (by omega), if_neg (by omega), if_neg (by omega), if_neg (by omega)]; simp only [Prod.mk.injEq, true_and]; omega
  · rw [if_neg (by omega), if_neg (by omega), if_neg (by omega), if_neg (by omega), if_neg (by omega), if_neg (by omega), if_neg (by omega), if_neg (by omega), if_neg (by omega), if_neg (by omega), if_neg (by omega)]; simp only [Prod.mk.injEq, true_and]; omega

/-- **The calendar round trip**: a real date is read back from its day number. -/
theorem civil_roundtrip (y : Int) (m d : Nat) (hm1 : 1 ≤ m) (hm : m ≤ 12) (hd1 : 1 ≤ d)
    (hd : d ≤ daysInMonth y m) : ofDays (toDays y m d) = (y, m, d) := by
  have hdec := daysBeforeYear_decomp y
  have hcum : cum (isLeap y) m + d ≤ cum (isLeap y) (m + 1) := by
    have := daysInMonth_eq y m hm1 hm; omega
  have hle := cum_succ_le (isLeap y) m hm1 hm
  have hleap := isLeap_iff y
  have hy : 400 * ((y - 1) / 400) + 100 * ((y - 1) % 400 / 100) + 4 * ((y - 1) % 100 / 4) + (y - 1) % 4 + 1 = y := by omega
  have hdoy : (((cum (isLeap y) m + d - 1 : Nat) : Int)) ≤ 364 ∨
      ((((cum (isLeap y) m + d - 1 : Nat) : Int)) = 365 ∧ (y - 1) % 4 = 3 ∧
        ((y - 1) % 100 / 4 ≠ 24 ∨ (y - 1) % 400 / 100 = 3)) := by
    cases hl : isLeap y with
    | false =>
      rw [hl] at hcum hle
      simp at hle; left; omega
    | true =>
      rw [hl] at hcum hle
      simp at hle
      have := hleap.mp hl
      omega
  have htd : toDays y m d = 146097 * ((y - 1) / 400) + 36524 * ((y - 1) % 400 / 100) +
      1461 * ((y - 1) % 100 / 4) + 365 * ((y - 1) % 4) + ((cum (isLeap y) m + d - 1 : Nat) : Int) := by
    unfold toDays; omega
  rw [htd, ofDays_mixed _ _ _ _ _ (by omega) (by omega) (by omega) (by omega) (by omega) (by omega) (by omega) hdoy]
  rw [hy, Int.toNat_natCast, monthDay_cum (isLeap y) m d hm1 hm hd1 hcum]

theorem gValid_iff (f : Fields) : gValid f = true ↔
    1 ≤ f.year ∧ f.year ≤ 9999 ∧ 1 ≤ f.month ∧ f.month ≤ 12 ∧ 1 ≤ f.day ∧ f.day ≤ daysInMonth f.year f.month ∧
    f.hour < 24 ∧ f.minute < 60 ∧ f.second < 60 := by
  simp [gValid, and_assoc]

/-- the seconds of a valid field tuple are read back as the tuple -/
theorem gOfSec_gToSec (f : Fields) (h : gValid f = true) : gOfSec (gToSec f) = f := by
  obtain ⟨_, _, hm1, hm, hd1, hd, hh, hmi, hs⟩ := (gValid_iff f).mp h
  have hc := civil_roundtrip f.year f.month f.day hm1 hm hd1 hd
  obtain ⟨y, mo, d, hr, mi, s⟩ := f
  simp only at hm1 hm hd1 hd hh hmi hs hc
  have e1 : gToSec ⟨y, mo, d, hr, mi, s⟩ / 86400 + unixDay = toDays y mo d := by
    simp only [gToSec]; omega
  have e2 : gToSec ⟨y, mo, d, hr, mi, s⟩ % 86400 = (hr : Int) * 3600 + (mi : Int) * 60 + (s : Int) := by
    simp only [gToSec]; omega
  simp only [gOfSec, e1, e2, hc]
  congr 1 <;> omega

/-- **The driver's calendar is a lawful instance of the abstract calendar.** -/
theorem gregorian_lawful : CalLaws gregorian where
  ofSec_toSec := gOfSec_gToSec
  bounds := by
    intro f h
    obtain ⟨h1, h2, h3, h4, h5, h6, h7, h8, h9⟩ := (gValid_iff f).mp h
    have := daysInMonth_le f.year f.month
    exact ⟨h1, h2, h3, h4, h5, by omega, h7, h8, h9⟩

end Ems.TimeUnits
