import EmsModel.Lemmas.DepthIdem
/-!
Lemmas/DepthFloor.lean — `ocean_floor`: what one group, one depth dimension and the whole
loop do to the variables of a dataset, by name.
-/
namespace Ems.Depth

open Ems

/-! ### lists of uniquely named variables -/

def NamesNodup (ds : Dataset) : Prop := (ds.vars.map (·.name)).Nodup

theorem find?_none_of_not_mem_names : ∀ (l : List Var) (m : String), m ∉ l.map (·.name) →
    l.find? (fun w => w.name == m) = none
  | [], _, _ => rfl
  | x :: xs, m, h => by
    simp only [List.map_cons, List.mem_cons, not_or] at h
    have : (x.name == m) = false := by simp [Ne.symm h.1]
    rw [List.find?_cons, this]
    exact find?_none_of_not_mem_names xs m h.2

/-- moving the members of a sub-collection to the front (and rewriting them with a
name-preserving `f`) does not change what `find` by name returns, except for `f` -/
theorem find?_partition (p : Var → Bool) (f : Var → Var) (hf : ∀ v, (f v).name = v.name) (m : String) :
    ∀ (l : List Var), (l.map (·.name)).Nodup →
      (((l.filter p).map f) ++ l.filter (fun v => !p v)).find? (fun w => w.name == m)
        = (l.find? (fun w => w.name == m)).map (fun v => if p v then f v else v)
  | [], _ => rfl
  | x :: xs, hn => by
    simp only [List.map_cons, List.nodup_cons] at hn
    have ih := find?_partition p f hf m xs hn.2
    by_cases hp : p x = true
    · by_cases hm : x.name = m
      · simp [List.filter_cons, hp, hf, hm]
      · have hm' : (x.name == m) = false := by simp [hm]
        have hm'' : ((f x).name == m) = false := by simp [hf, hm]
        simp only [List.filter_cons, hp, if_true, Bool.not_true, Bool.false_eq_true, if_false, List.map_cons,
          List.cons_append, List.find?_cons, hm', hm'']
        exact ih
    · have hp' : p x = false := by simpa using hp
      by_cases hm : x.name = m
      · have hnone : ((xs.filter p).map f).find? (fun w => w.name == m) = none := by
          apply find?_none_of_not_mem_names
          intro hmem
          simp only [List.map_map, List.mem_map, Function.comp] at hmem
          obtain ⟨y, hy, hyn⟩ := hmem
          rw [hf] at hyn
          exact hn.1 (hm ▸ hyn ▸ List.mem_map_of_mem (f := (·.name)) (List.mem_filter.mp hy).1)
        simp [List.filter_cons, hp', List.find?_append, hnone, hm]
      · have hm' : (x.name == m) = false := by simp [hm]
        simp only [List.filter_cons, hp', Bool.false_eq_true, if_false, Bool.not_false, if_true,
          List.find?_append, List.find?_cons, hm'] at ih ⊢
        exact ih

theorem names_partition (p : Var → Bool) (f : Var → Var) (hf : ∀ v, (f v).name = v.name) (l : List Var) :
    ((((l.filter p).map f) ++ l.filter (fun v => !p v)).map (·.name)).Perm (l.map (·.name)) := by
  have h1 : (((l.filter p).map f) ++ l.filter (fun v => !p v)).map (·.name)
      = (l.filter p ++ l.filter (fun v => !p v)).map (·.name) := by
    simp [List.map_append, List.map_map, Function.comp_def, hf]
  rw [h1]
  exact (List.filter_append_perm p l).map _

/-! ### index selection read by named index -/

theorem mem_dedup : ∀ (l : List String) (x : String), x ∈ dedup l ↔ x ∈ l
  | [], _ => by simp [dedup]
  | y :: ys, x => by
    simp only [dedup, List.mem_cons, List.mem_filter, mem_dedup ys x]
    by_cases h : x = y <;> simp [h]

theorem mem_iselDims (dd : String) (idims dims : List String) (x : String) :
    x ∈ iselDims dd idims dims ↔ (x ∈ dims ∧ x ≠ dd) ∨ (dd ∈ dims ∧ x ∈ idims) := by
  simp only [iselDims, mem_dedup, List.mem_flatMap]
  constructor
  · rintro ⟨y, hy, hx⟩
    by_cases h : y = dd
    · subst h; simp only [if_true] at hx; exact Or.inr ⟨hy, hx⟩
    · simp only [h, if_false, List.mem_singleton] at hx; subst hx; exact Or.inl ⟨hy, h⟩
  · rintro (⟨h1, h2⟩ | ⟨h1, h2⟩)
    · exact ⟨x, h1, by simp [h2]⟩
    · exact ⟨dd, h1, by simpa using h2⟩

/-- `isel` with an index array: the cell at `env` is the source cell with `d` moved to `I env` -/
theorem at_iselVar (sz : String → Nat) (d : String) (I : Env → Nat) (odims : List String) (v : Var) (env : Env)
    (hbox : InBox sz odims env)
    (hsub : ∀ x ∈ v.dims, x ≠ d → x ∈ odims)
    (hI : ∀ e1 e2 : Env, (∀ x ∈ odims, e1 x = e2 x) → I e1 = I e2) :
    (iselVar sz d I odims v).at sz env = v.at sz (upd env d (I env)) := by
  unfold iselVar
  apply at_gather_local sz v odims _ env hbox
  intro e1 e2 he
  rw [hI e1 e2 he]
  apply at_congr
  intro x hx
  by_cases hxd : x = d
  · simp [upd, hxd]
  · simp [upd, hxd, he x (hsub x hx hxd)]

theorem column_congr (sz : String → Nat) (v : Var) (d : String) (e1 e2 : Env)
    (h : ∀ x ∈ v.dims, x ≠ d → e1 x = e2 x) : column sz v d e1 = column sz v d e2 := by
  unfold column
  apply List.map_congr_left
  intro j _
  apply at_congr
  intro x hx
  by_cases hxd : x = d
  · simp [upd, hxd]
  · simp [upd, hxd, h x hx hxd]

/-! ### one group -/

theorem floorVar_name (sz : String → Nat) (ns : List String) (dd : String) (ex v : Var) :
    (floorVar sz ns dd ex v).name = v.name := by
  unfold floorVar; split <;> rfl
theorem floorVar_bounds (sz : String → Nat) (ns : List String) (dd : String) (ex v : Var) :
    (floorVar sz ns dd ex v).bounds = v.bounds := by
  unfold floorVar; split <;> rfl
theorem floorVar_isCoord (sz : String → Nat) (ns : List String) (dd : String) (ex v : Var) :
    (floorVar sz ns dd ex v).isCoord = v.isCoord := by
  unfold floorVar; split <;> rfl
theorem floorVar_of_not_mem (sz : String → Nat) (ns : List String) (dd : String) (ex v : Var) (h : dd ∉ v.dims) :
    floorVar sz ns dd ex v = v := by
  simp [floorVar, h]

/-- the result of one group, by name -/
theorem floorGroup_spec (kb : Bool) (ns : List String) (dd : String) (S : Dataset) (n0 : String)
    (rest : List String) (ex : Var) (hn : NamesNodup S) (hex : S.find n0 = some ex) (hdd : dd ∈ ex.dims) :
    ∃ S', floorGroup kb ns dd S (n0 :: rest) = some S' ∧ S'.sizes = S.sizes ∧ NamesNodup S'
      ∧ (∀ m, S'.find m = (S.find m).map (fun v =>
          if inSubset kb dd (n0 :: rest) S.vars v then floorVar S.sz ns dd ex v else v))
      ∧ (∀ w' ∈ S'.vars, ∃ w ∈ S.vars, w' = w ∨ (inSubset kb dd (n0 :: rest) S.vars w = true
          ∧ w' = floorVar S.sz ns dd ex w)) := by
  refine ⟨{ S with vars :=
      ((S.vars.filter (inSubset kb dd (n0 :: rest) S.vars)).map (floorVar S.sz ns dd ex))
        ++ S.vars.filter (fun v => !inSubset kb dd (n0 :: rest) S.vars v) },
    by simp [floorGroup, hex, hdd], rfl, ?_, ?_, ?_⟩
  · exact ((names_partition _ _ (floorVar_name S.sz ns dd ex) S.vars).nodup_iff).mpr hn
  · intro m
    exact find?_partition _ _ (floorVar_name S.sz ns dd ex) m S.vars hn
  · intro w' hw'
    simp only [List.mem_append, List.mem_map, List.mem_filter] at hw'
    rcases hw' with ⟨w, ⟨hw, hin⟩, rfl⟩ | ⟨hw, _⟩
    · exact ⟨w, hw, Or.inr ⟨hin, rfl⟩⟩
    · exact ⟨w', hw, Or.inl rfl⟩

/-! ### the groups of one depth dimension -/

/-- a data variable that `ocean_floor` reduces along `dd`: it has the dimension and at least
one spatial dimension -/
def qual (ns : List String) (dd : String) (v : Var) : Bool :=
  !v.isCoord && decide (dd ∈ v.dims) && !(spatialOf ns dd v).isEmpty

def groupStep (ns : List String) (dd : String) (gs : List (List String × List String)) (v : Var) :=
  if qual ns dd v then addToGroups gs (spatialOf ns dd v) v.name else gs

theorem groupsOf_eq (ns : List String) (dd : String) (vars : List Var) :
    groupsOf ns dd vars = vars.foldl (groupStep ns dd) [] := rfl

theorem groupsOf_snoc (ns : List String) (dd : String) (xs : List Var) (x : Var) :
    groupsOf ns dd (xs ++ [x]) = groupStep ns dd (groupsOf ns dd xs) x := by
  simp [groupsOf_eq, List.foldl_append]

theorem perm_addToGroups : ∀ (gs : List (List String × List String)) (key : List String) (name : String),
    ((addToGroups gs key name).flatMap (·.2)).Perm (name :: gs.flatMap (·.2))
  | [], key, name => by simp [addToGroups]
  | (k, ns) :: rest, key, name => by
    unfold addToGroups
    split
    · simp only [List.flatMap_cons]
      have : (ns ++ [name] ++ rest.flatMap (·.2)).Perm (name :: (ns ++ rest.flatMap (·.2))) := by
        rw [List.append_assoc]
        exact List.perm_middle
      exact this
    · simp only [List.flatMap_cons]
      have ih := perm_addToGroups rest key name
      exact (List.Perm.append_left ns ih).trans List.perm_middle

theorem sameSet_refl (a : List String) : sameSet a a = true := by
  simp [sameSet]

/-- where a group of `addToGroups` comes from -/
theorem mem_addToGroups : ∀ (gs : List (List String × List String)) (key : List String) (name : String)
    (g : List String × List String), g ∈ addToGroups gs key name →
      g ∈ gs ∨ (∃ ns, (g.1, ns) ∈ gs ∧ sameSet g.1 key = true ∧ g.2 = ns ++ [name]) ∨ g = (key, [name])
  | [], key, name, g, h => by
    simp only [addToGroups, List.mem_singleton] at h
    exact Or.inr (Or.inr h)
  | (k, ns) :: rest, key, name, g, h => by
    unfold addToGroups at h
    split at h
    · rename_i hs
      rcases List.mem_cons.mp h with rfl | hm
      · exact Or.inr (Or.inl ⟨ns, by simp, hs, rfl⟩)
      · exact Or.inl (by simp [hm])
    · rcases List.mem_cons.mp h with rfl | hm
      · exact Or.inl (by simp)
      · rcases mem_addToGroups rest key name g hm with h1 | ⟨ns', h2, h3, h4⟩ | h5
        · exact Or.inl (by simp [h1])
        · exact Or.inr (Or.inl ⟨ns', by simp [h2], h3, h4⟩)
        · exact Or.inr (Or.inr h5)

/-- every group has a head that is a qualifying variable whose spatial dimensions are the
group's key, and every member is a qualifying variable with the same set of spatial dimensions -/
def GroupsOK (ns : List String) (dd : String) (vars : List Var) (gs : List (List String × List String)) : Prop :=
  ∀ g ∈ gs,
    (∃ n0 rest v0, g.2 = n0 :: rest ∧ v0 ∈ vars ∧ v0.name = n0 ∧ qual ns dd v0 = true ∧ g.1 = spatialOf ns dd v0)
    ∧ (∀ m ∈ g.2, ∃ v ∈ vars, v.name = m ∧ qual ns dd v = true ∧ sameSet g.1 (spatialOf ns dd v) = true)

theorem groupsOK_mono (ns : List String) (dd : String) (xs ys : List Var) (gs : List (List String × List String))
    (h : GroupsOK ns dd xs gs) (hsub : ∀ v ∈ xs, v ∈ ys) : GroupsOK ns dd ys gs := by
  intro g hg
  obtain ⟨⟨n0, rest, v0, h1, h2, h3, h4, h5⟩, hm⟩ := h g hg
  refine ⟨⟨n0, rest, v0, h1, hsub v0 h2, h3, h4, h5⟩, ?_⟩
  intro m hmem
  obtain ⟨v, hv, hr⟩ := hm m hmem
  exact ⟨v, hsub v hv, hr⟩

theorem groupStep_ok (ns : List String) (dd : String) (xs : List Var) (x : Var)
    (gs : List (List String × List String))
    (ihok : GroupsOK ns dd xs gs)
    (ihperm : (gs.flatMap (·.2)).Perm ((xs.filter (qual ns dd)).map (·.name))) :
    GroupsOK ns dd (xs ++ [x]) (groupStep ns dd gs x)
      ∧ ((groupStep ns dd gs x).flatMap (·.2)).Perm (((xs ++ [x]).filter (qual ns dd)).map (·.name)) := by
  unfold groupStep
  by_cases hq : qual ns dd x = true
  · simp only [hq, if_true]
    constructor
    · intro g hg
      have ihok' := groupsOK_mono ns dd xs (xs ++ [x]) _ ihok (fun v hv => by simp [hv])
      rcases mem_addToGroups _ _ _ g hg with h1 | ⟨ns', h2, h3, h4⟩ | h5
      · exact ihok' g h1
      · obtain ⟨⟨n0, rest, v0, e1, e2, e3, e4, e5⟩, hm⟩ := ihok' (g.1, ns') h2
        simp only at e1 e5 hm
        refine ⟨⟨n0, rest ++ [x.name], v0, by rw [h4, e1]; rfl, e2, e3, e4, e5⟩, ?_⟩
        intro m hmem
        rw [h4] at hmem
        rcases List.mem_append.mp hmem with hm1 | hm2
        · exact hm m hm1
        · simp only [List.mem_singleton] at hm2
          exact ⟨x, by simp, hm2.symm, hq, h3⟩
      · subst h5
        refine ⟨⟨x.name, [], x, rfl, by simp, rfl, hq, rfl⟩, ?_⟩
        intro m hmem
        simp only [List.mem_singleton] at hmem
        exact ⟨x, by simp, hmem.symm, hq, sameSet_refl _⟩
    · refine (perm_addToGroups _ _ _).trans ?_
      simp only [List.filter_append, List.filter_cons, hq, if_true, List.filter_nil, List.map_append,
        List.map_cons, List.map_nil]
      exact (List.Perm.cons _ ihperm).trans (List.perm_append_singleton _ _).symm
  · simp only [hq, Bool.false_eq_true, if_false]
    constructor
    · exact groupsOK_mono ns dd xs (xs ++ [x]) _ ihok (fun v hv => by simp [hv])
    · simpa [List.filter_append, List.filter_cons, hq] using ihperm

theorem groupFold_ok (ns : List String) (dd : String) : ∀ (vars pre : List Var)
    (gs : List (List String × List String)),
    GroupsOK ns dd pre gs → (gs.flatMap (·.2)).Perm ((pre.filter (qual ns dd)).map (·.name)) →
    GroupsOK ns dd (pre ++ vars) (vars.foldl (groupStep ns dd) gs)
      ∧ ((vars.foldl (groupStep ns dd) gs).flatMap (·.2)).Perm (((pre ++ vars).filter (qual ns dd)).map (·.name))
  | [], pre, gs, h1, h2 => by simpa using ⟨h1, h2⟩
  | x :: xs, pre, gs, h1, h2 => by
    obtain ⟨k1, k2⟩ := groupStep_ok ns dd pre x gs h1 h2
    have := groupFold_ok ns dd xs (pre ++ [x]) _ k1 k2
    simpa [List.append_assoc] using this

theorem groupsOf_ok (ns : List String) (dd : String) (vars : List Var) :
    GroupsOK ns dd vars (groupsOf ns dd vars)
      ∧ ((groupsOf ns dd vars).flatMap (·.2)).Perm ((vars.filter (qual ns dd)).map (·.name)) := by
  have := groupFold_ok ns dd vars [] [] (by intro g hg; simp at hg) (by simp)
  simpa [groupsOf_eq] using this

end Ems.Depth
