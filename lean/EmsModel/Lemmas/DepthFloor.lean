import EmsModel.Lemmas.DepthIdem
/-!
Lemmas/DepthFloor.lean — `ocean_floor`: what one group, one depth dimension and the whole
loop do to the variables of a dataset, by name.
-/
namespace Ems.Depth

open Ems

/-! ### lists of uniquely named variables -/

def NamesNodup (ds : Dataset) : Prop := (ds.vars.map (·.name)).Nodup

theorem find?_none_of_not_mem_names : ∀ (l : List Var) (m : String), m ∉ l.map (·.name) →
    l.find? (fun w => w.name == m) = none
  | [], _, _ => rfl
  | x :: xs, m, h => by
    simp only [List.map_cons, List.mem_cons, not_or] at h
    have : (x.name == m) = false := by simp [Ne.symm h.1]
    rw [List.find?_cons, this]
    exact find?_none_of_not_mem_names xs m h.2

/-- moving the members of a sub-collection to the front (and rewriting them with a
name-preserving `f`) does not change what `find` by name returns, except for `f` -/
theorem find?_partition (p : Var → Bool) (f : Var → Var) (hf : ∀ v, (f v).name = v.name) (m : String) :
    ∀ (l : List Var), (l.map (·.name)).Nodup →
      (((l.filter p).map f) ++ l.filter (fun v => !p v)).find? (fun w => w.name == m)
        = (l.find? (fun w => w.name == m)).map (fun v => if p v then f v else v)
  | [], _ => rfl
  | x :: xs, hn => by
    simp only [List.map_cons, List.nodup_cons] at hn
    have ih := find?_partition p f hf m xs hn.2
    by_cases hp : p x = true
    · by_cases hm : x.name = m
      · simp [List.filter_cons, hp, hf, hm]
      · have hm' : (x.name == m) = false := by simp [hm]
        have hm'' : ((f x).name == m) = false := by simp [hf, hm]
        simp only [List.filter_cons, hp, if_true, Bool.not_true, Bool.false_eq_true, if_false, List.map_cons,
          List.cons_append, List.find?_cons, hm', hm'']
        exact ih
    · have hp' : p x = false := by simpa using hp
      by_cases hm : x.name = m
      · have hnone : ((xs.filter p).map f).find? (fun w => w.name == m) = none := by
          apply find?_none_of_not_mem_names
          intro hmem
          simp only [List.map_map, List.mem_map, Function.comp] at hmem
          obtain ⟨y, hy, hyn⟩ := hmem
          rw [hf] at hyn
          exact hn.1 (hm ▸ hyn ▸ List.mem_map_of_mem (f := (·.name)) (List.mem_filter.mp hy).1)
        simp [List.filter_cons, hp', List.find?_append, hnone, hm]
      · have hm' : (x.name == m) = false := by simp [hm]
        simp only [List.filter_cons, hp', Bool.false_eq_true, if_false, Bool.not_false, if_true,
          List.find?_append, List.find?_cons, hm'] at ih ⊢
        exact ih

theorem names_partition (p : Var → Bool) (f : Var → Var) (hf : ∀ v, (f v).name = v.name) (l : List Var) :
    ((((l.filter p).map f) ++ l.filter (fun v => !p v)).map (·.name)).Perm (l.map (·.name)) := by
  have h1 : (((l.filter p).map f) ++ l.filter (fun v => !p v)).map (·.name)
      = (l.filter p ++ l.filter (fun v => !p v)).map (·.name) := by
    simp [List.map_append, List.map_map, Function.comp_def, hf]
  rw [h1]
  exact (List.filter_append_perm p l).map _

/-! ### index selection read by named index -/

theorem mem_dedup : ∀ (l : List String) (x : String), x ∈ dedup l ↔ x ∈ l
  | [], _ => by simp [dedup]
  | y :: ys, x => by
    simp only [dedup, List.mem_cons, List.mem_filter, mem_dedup ys x]
    by_cases h : x = y <;> simp [h]

theorem mem_iselDims (dd : String) (idims dims : List String) (x : String) :
    x ∈ iselDims dd idims dims ↔ (x ∈ dims ∧ x ≠ dd) ∨ (dd ∈ dims ∧ x ∈ idims) := by
  simp only [iselDims, mem_dedup, List.mem_flatMap]
  constructor
  · rintro ⟨y, hy, hx⟩
    by_cases h : y = dd
    · subst h; simp only [if_true] at hx; exact Or.inr ⟨hy, hx⟩
    · simp only [h, if_false, List.mem_singleton] at hx; subst hx; exact Or.inl ⟨hy, h⟩
  · rintro (⟨h1, h2⟩ | ⟨h1, h2⟩)
    · exact ⟨x, h1, by simp [h2]⟩
    · exact ⟨dd, h1, by simpa using h2⟩

/-- `isel` with an index array: the cell at `env` is the source cell with `d` moved to `I env` -/
theorem at_iselVar (sz : String → Nat) (d : String) (I : Env → Nat) (odims : List String) (v : Var) (env : Env)
    (hbox : InBox sz odims env)
    (hsub : ∀ x ∈ v.dims, x ≠ d → x ∈ odims)
    (hI : ∀ e1 e2 : Env, (∀ x ∈ odims, e1 x = e2 x) → I e1 = I e2) :
    (iselVar sz d I odims v).at sz env = v.at sz (upd env d (I env)) := by
  unfold iselVar
  apply at_gather_local sz v odims _ env hbox
  intro e1 e2 he
  rw [hI e1 e2 he]
  apply at_congr
  intro x hx
  by_cases hxd : x = d
  · simp [upd, hxd]
  · simp [upd, hxd, he x (hsub x hx hxd)]

theorem column_congr (sz : String → Nat) (v : Var) (d : String) (e1 e2 : Env)
    (h : ∀ x ∈ v.dims, x ≠ d → e1 x = e2 x) : column sz v d e1 = column sz v d e2 := by
  unfold column
  apply List.map_congr_left
  intro j _
  apply at_congr
  intro x hx
  by_cases hxd : x = d
  · simp [upd, hxd]
  · simp [upd, hxd, h x hx hxd]

/-! ### one group -/

theorem floorVar_name (sz : String → Nat) (ns : List String) (dd : String) (ex v : Var) :
    (floorVar sz ns dd ex v).name = v.name := by
  unfold floorVar; split <;> rfl
theorem floorVar_bounds (sz : String → Nat) (ns : List String) (dd : String) (ex v : Var) :
    (floorVar sz ns dd ex v).bounds = v.bounds := by
  unfold floorVar; split <;> rfl
theorem floorVar_isCoord (sz : String → Nat) (ns : List String) (dd : String) (ex v : Var) :
    (floorVar sz ns dd ex v).isCoord = v.isCoord := by
  unfold floorVar; split <;> rfl
theorem floorVar_of_not_mem (sz : String → Nat) (ns : List String) (dd : String) (ex v : Var) (h : dd ∉ v.dims) :
    floorVar sz ns dd ex v = v := by
  simp [floorVar, h]

/-- the result of one group, by name -/
theorem floorGroup_spec (kb : Bool) (ns : List String) (dd : String) (S : Dataset) (n0 : String)
    (rest : List String) (ex : Var) (hn : NamesNodup S) (hex : S.find n0 = some ex) (hdd : dd ∈ ex.dims) :
    ∃ S', floorGroup kb ns dd S (n0 :: rest) = some S' ∧ S'.sizes = S.sizes ∧ NamesNodup S'
      ∧ (∀ m, S'.find m = (S.find m).map (fun v =>
          if inSubset kb dd (n0 :: rest) S.vars v then floorVar S.sz ns dd ex v else v))
      ∧ (∀ w' ∈ S'.vars, ∃ w ∈ S.vars, w' = w ∨ (inSubset kb dd (n0 :: rest) S.vars w = true
          ∧ w' = floorVar S.sz ns dd ex w)) := by
  refine ⟨{ S with vars :=
      ((S.vars.filter (inSubset kb dd (n0 :: rest) S.vars)).map (floorVar S.sz ns dd ex))
        ++ S.vars.filter (fun v => !inSubset kb dd (n0 :: rest) S.vars v) },
    by simp [floorGroup, hex, hdd], rfl, ?_, ?_, ?_⟩
  · exact ((names_partition _ _ (floorVar_name S.sz ns dd ex) S.vars).nodup_iff).mpr hn
  · intro m
    exact find?_partition _ _ (floorVar_name S.sz ns dd ex) m S.vars hn
  · intro w' hw'
    simp only [List.mem_append, List.mem_map, List.mem_filter] at hw'
    rcases hw' with ⟨w, ⟨hw, hin⟩, rfl⟩ | ⟨hw, _⟩
    · exact ⟨w, hw, Or.inr ⟨hin, rfl⟩⟩
    · exact ⟨w', hw, Or.inl rfl⟩

/-! ### the groups of one depth dimension -/

/-- a data variable that `ocean_floor` reduces along `dd`: it has the dimension and at least
one spatial dimension -/
def qual (ns : List String) (dd : String) (v : Var) : Bool :=
  !v.isCoord && decide (dd ∈ v.dims) && !(spatialOf ns dd v).isEmpty

def groupStep (ns : List String) (dd : String) (gs : List (List String × List String)) (v : Var) :=
  if qual ns dd v then addToGroups gs (spatialOf ns dd v) v.name else gs

theorem groupsOf_eq (ns : List String) (dd : String) (vars : List Var) :
    groupsOf ns dd vars = vars.foldl (groupStep ns dd) [] := rfl

theorem groupsOf_snoc (ns : List String) (dd : String) (xs : List Var) (x : Var) :
    groupsOf ns dd (xs ++ [x]) = groupStep ns dd (groupsOf ns dd xs) x := by
  simp [groupsOf_eq, List.foldl_append]

theorem perm_addToGroups : ∀ (gs : List (List String × List String)) (key : List String) (name : String),
    ((addToGroups gs key name).flatMap (·.2)).Perm (name :: gs.flatMap (·.2))
  | [], key, name => by simp [addToGroups]
  | (k, ns) :: rest, key, name => by
    unfold addToGroups
    split
    · simp only [List.flatMap_cons]
      have : (ns ++ [name] ++ rest.flatMap (·.2)).Perm (name :: (ns ++ rest.flatMap (·.2))) := by
        rw [List.append_assoc]
        exact List.perm_middle
      exact this
    · simp only [List.flatMap_cons]
      have ih := perm_addToGroups rest key name
      exact (List.Perm.append_left ns ih).trans List.perm_middle

theorem sameSet_refl (a : List String) : sameSet a a = true := by
  simp [sameSet]

/-- where a group of `addToGroups` comes from -/
theorem mem_addToGroups : ∀ (gs : List (List String × List String)) (key : List String) (name : String)
    (g : List String × List String), g ∈ addToGroups gs key name →
      g ∈ gs ∨ (∃ ns, (g.1, ns) ∈ gs ∧ sameSet g.1 key = true ∧ g.2 = ns ++ [name]) ∨ g = (key, [name])
  | [], key, name, g, h => by
    simp only [addToGroups, List.mem_singleton] at h
    exact Or.inr (Or.inr h)
  | (k, ns) :: rest, key, name, g, h => by
    unfold addToGroups at h
    split at h
    · rename_i hs
      rcases List.mem_cons.mp h with rfl | hm
      · exact Or.inr (Or.inl ⟨ns, by simp, hs, rfl⟩)
      · exact Or.inl (by simp [hm])
    · rcases List.mem_cons.mp h with rfl | hm
      · exact Or.inl (by simp)
      · rcases mem_addToGroups rest key name g hm with h1 | ⟨ns', h2, h3, h4⟩ | h5
        · exact Or.inl (by simp [h1])
        · exact Or.inr (Or.inl ⟨ns', by simp [h2], h3, h4⟩)
        · exact Or.inr (Or.inr h5)

/-- every group has a head that is a qualifying variable whose spatial dimensions are the
group's key, and every member is a qualifying variable with the same set of spatial dimensions -/
def GroupsOK (ns : List String) (dd : String) (vars : List Var) (gs : List (List String × List String)) : Prop :=
  ∀ g ∈ gs,
    (∃ n0 rest v0, g.2 = n0 :: rest ∧ v0 ∈ vars ∧ v0.name = n0 ∧ qual ns dd v0 = true ∧ g.1 = spatialOf ns dd v0)
    ∧ (∀ m ∈ g.2, ∃ v ∈ vars, v.name = m ∧ qual ns dd v = true ∧ sameSet g.1 (spatialOf ns dd v) = true)

theorem groupsOK_mono (ns : List String) (dd : String) (xs ys : List Var) (gs : List (List String × List String))
    (h : GroupsOK ns dd xs gs) (hsub : ∀ v ∈ xs, v ∈ ys) : GroupsOK ns dd ys gs := by
  intro g hg
  obtain ⟨⟨n0, rest, v0, h1, h2, h3, h4, h5⟩, hm⟩ := h g hg
  refine ⟨⟨n0, rest, v0, h1, hsub v0 h2, h3, h4, h5⟩, ?_⟩
  intro m hmem
  obtain ⟨v, hv, hr⟩ := hm m hmem
  exact ⟨v, hsub v hv, hr⟩

theorem groupStep_ok (ns : List String) (dd : String) (xs : List Var) (x : Var)
    (gs : List (List String × List String))
    (ihok : GroupsOK ns dd xs gs)
    (ihperm : (gs.flatMap (·.2)).Perm ((xs.filter (qual ns dd)).map (·.name))) :
    GroupsOK ns dd (xs ++ [x]) (groupStep ns dd gs x)
      ∧ ((groupStep ns dd gs x).flatMap (·.2)).Perm (((xs ++ [x]).filter (qual ns dd)).map (·.name)) := by
  unfold groupStep
  by_cases hq : qual ns dd x = true
  · simp only [hq, if_true]
    constructor
    · intro g hg
      have ihok' := groupsOK_mono ns dd xs (xs ++ [x]) _ ihok (fun v hv => by simp [hv])
      rcases mem_addToGroups _ _ _ g hg with h1 | ⟨ns', h2, h3, h4⟩ | h5
      · exact ihok' g h1
      · obtain ⟨⟨n0, rest, v0, e1, e2, e3, e4, e5⟩, hm⟩ := ihok' (g.1, ns') h2
        simp only at e1 e5 hm
        refine ⟨⟨n0, rest ++ [x.name], v0, by rw [h4, e1]; rfl, e2, e3, e4, e5⟩, ?_⟩
        intro m hmem
        rw [h4] at hmem
        rcases List.mem_append.mp hmem with hm1 | hm2
        · exact hm m hm1
        · simp only [List.mem_singleton] at hm2
          exact ⟨x, by simp, hm2.symm, hq, h3⟩
      · subst h5
        refine ⟨⟨x.name, [], x, rfl, by simp, rfl, hq, rfl⟩, ?_⟩
        intro m hmem
        simp only [List.mem_singleton] at hmem
        exact ⟨x, by simp, hmem.symm, hq, sameSet_refl _⟩
    · refine (perm_addToGroups _ _ _).trans ?_
      simp only [List.filter_append, List.filter_cons, hq, if_true, List.filter_nil, List.map_append,
        List.map_cons, List.map_nil]
      exact (List.Perm.cons _ ihperm).trans (List.perm_append_singleton _ _).symm
  · simp only [hq, Bool.false_eq_true, if_false]
    constructor
    · exact groupsOK_mono ns dd xs (xs ++ [x]) _ ihok (fun v hv => by simp [hv])
    · simpa [List.filter_append, List.filter_cons, hq] using ihperm

theorem groupFold_ok (ns : List String) (dd : String) : ∀ (vars pre : List Var)
    (gs : List (List String × List String)),
    GroupsOK ns dd pre gs → (gs.flatMap (·.2)).Perm ((pre.filter (qual ns dd)).map (·.name)) →
    GroupsOK ns dd (pre ++ vars) (vars.foldl (groupStep ns dd) gs)
      ∧ ((vars.foldl (groupStep ns dd) gs).flatMap (·.2)).Perm (((pre ++ vars).filter (qual ns dd)).map (·.name))
  | [], pre, gs, h1, h2 => by simpa using ⟨h1, h2⟩
  | x :: xs, pre, gs, h1, h2 => by
    obtain ⟨k1, k2⟩ := groupStep_ok ns dd pre x gs h1 h2
    have := groupFold_ok ns dd xs (pre ++ [x]) _ k1 k2
    simpa [List.append_assoc] using this

theorem groupsOf_ok (ns : List String) (dd : String) (vars : List Var) :
    GroupsOK ns dd vars (groupsOf ns dd vars)
      ∧ ((groupsOf ns dd vars).flatMap (·.2)).Perm ((vars.filter (qual ns dd)).map (·.name)) := by
  have := groupFold_ok ns dd vars [] [] (by intro g hg; simp at hg) (by simp)
  simpa [groupsOf_eq] using this

/-! ### one depth dimension -/

theorem sz_of_sizes (A B : Dataset) (h : A.sizes = B.sizes) : A.sz = B.sz := by
  funext d; simp [Dataset.sz, h]

theorem qual_not_coord {ns : List String} {dd : String} {v : Var} (h : qual ns dd v = true) : v.isCoord = false := by
  simp only [qual, Bool.and_eq_true, Bool.not_eq_true', decide_eq_true_eq] at h
  exact h.1.1

theorem qual_mem {ns : List String} {dd : String} {v : Var} (h : qual ns dd v = true) : dd ∈ v.dims := by
  simp only [qual, Bool.and_eq_true, Bool.not_eq_true', decide_eq_true_eq] at h
  exact h.1.2

theorem not_mem_spatialOf (ns : List String) (dd : String) (v : Var) : dd ∉ spatialOf ns dd v := by
  simp [spatialOf]

theorem floorVar_no_dim (sz : String → Nat) (ns : List String) (dd : String) (ex v : Var) (h : dd ∈ v.dims) :
    dd ∉ (floorVar sz ns dd ex v).dims := by
  simp only [floorVar, h, if_true, iselVar]
  rw [mem_iselDims]
  rintro (⟨_, h2⟩ | ⟨_, h2⟩)
  · exact h2 rfl
  · exact not_mem_spatialOf ns dd ex h2

/-- what must hold of the dataset when dimension `d` is processed: unique names, xarray
coordinates that have `d` are one-dimensional, and (for the code as written, `kb`) no data
variable that has `d` is named by a `bounds` attribute -/
structure DimReady (kb : Bool) (d : String) (S : Dataset) : Prop where
  nodup : NamesNodup S
  coords1d : ∀ v ∈ S.vars, v.isCoord = true → d ∈ v.dims → v.dims = [d]
  noBounds : kb = true → ∀ v ∈ S.vars, ∀ w ∈ S.vars, w.bounds = some v.name → v.isCoord = false → d ∉ v.dims

/-- every variable of `Si` is a variable of `S`, unchanged or floored along `d` -/
def Linked (ns : List String) (d : String) (S Si : Dataset) : Prop :=
  ∀ w' ∈ Si.vars, ∃ w ∈ S.vars, w' = w ∨
    (qual ns d w = true ∧ ∃ e ∈ S.vars, qual ns d e = true ∧ w' = floorVar S.sz ns d e w)

theorem Linked.attrs {ns : List String} {d : String} {S Si : Dataset} (h : Linked ns d S Si) :
    ∀ w' ∈ Si.vars, ∃ w ∈ S.vars, w'.name = w.name ∧ w'.bounds = w.bounds ∧ w'.isCoord = w.isCoord
      ∧ (d ∈ w'.dims → w' = w) := by
  intro w' hw'
  obtain ⟨w, hw, h1 | ⟨hq, e, _, _, h2⟩⟩ := h w' hw'
  · exact ⟨w, hw, by rw [h1], by rw [h1], by rw [h1], fun _ => h1⟩
  · refine ⟨w, hw, by rw [h2, floorVar_name], by rw [h2, floorVar_bounds], by rw [h2, floorVar_isCoord], ?_⟩
    intro hd
    rw [h2] at hd
    exact absurd hd (floorVar_no_dim _ _ _ _ _ (qual_mem hq))

/-- a variable outside the group that still has `d` is not in the group's subset -/
theorem not_inSubset (kb : Bool) (ns : List String) (d : String) (S Si : Dataset) (names : List String)
    (hS : DimReady kb d S) (hl : Linked ns d S Si) (w : Var) (hw : w ∈ S.vars) (hd : d ∈ w.dims)
    (hname : w.name ∉ names) : inSubset kb d names Si.vars w = false := by
  unfold inSubset
  by_cases hc : w.isCoord = true
  · simp [hc, hS.coords1d w hw hc hd]
  · have hc' : w.isCoord = false := by simpa using hc
    simp only [hc', Bool.false_eq_true, if_false, Bool.or_eq_false_iff]
    refine ⟨by simpa using hname, ?_⟩
    cases hkb : kb with
    | false => rfl
    | true =>
      simp only [Bool.true_and, List.any_eq_false, Bool.and_eq_true, not_and]
      intro w2' hw2' _ hb
      obtain ⟨w2, hw2, _, hb2, _, _⟩ := hl.attrs w2' hw2'
      have hbb : w2.bounds = some w.name := by rw [← hb2]; simpa using hb
      exact hS.noBounds hkb w hw w2 hw2 hbb hc' hd

theorem floorGroups_spec (kb : Bool) (ns : List String) (d : String) (S : Dataset) (hS : DimReady kb d S) :
    ∀ (gs : List (List String × List String)) (Si : Dataset),
      GroupsOK ns d S.vars gs → (gs.flatMap (·.2)).Nodup → Si.sizes = S.sizes → NamesNodup Si →
      Linked ns d S Si → (∀ g ∈ gs, ∀ m ∈ g.2, Si.find m = S.find m) →
      ∃ S', floorGroups kb ns d Si gs = some S' ∧ S'.sizes = S.sizes ∧ NamesNodup S' ∧ Linked ns d S S'
        ∧ (∀ g ∈ gs, ∀ m ∈ g.2, ∃ e v, e ∈ S.vars ∧ qual ns d e = true ∧ g.1 = spatialOf ns d e
              ∧ S.find m = some v ∧ S'.find m = some (floorVar S.sz ns d e v))
        ∧ (∀ m, m ∉ gs.flatMap (·.2) → S'.find m = Si.find m)
  | [], Si, _, _, hsz, hnd, hl, _ => ⟨Si, rfl, hsz, hnd, hl, by intro g hg; simp at hg, fun _ _ => rfl⟩
  | g :: gs, Si, hok, hflat, hsz, hnd, hl, hU => by
    obtain ⟨⟨n0, rest, v0, hg2, hv0, hv0n, hv0q, hg1⟩, hmem⟩ := hok g (by simp)
    have hszf : Si.sz = S.sz := sz_of_sizes _ _ hsz
    -- the example variable is the untouched head of the group
    have hfind0 : Si.find n0 = some v0 := by
      rw [hU g (by simp) n0 (by simp [hg2]), ← hv0n]
      exact find_of_mem S hS.nodup v0 hv0
    obtain ⟨S1, hstep, hsz1, hnd1, hfind1, hvars1⟩ :=
      floorGroup_spec kb ns d Si n0 rest v0 hnd hfind0 (qual_mem hv0q)
    -- members of the group are floored
    have hA : ∀ m ∈ g.2, ∃ v, v ∈ S.vars ∧ qual ns d v = true ∧ S.find m = some v
        ∧ S1.find m = some (floorVar S.sz ns d v0 v) := by
      intro m hm
      obtain ⟨v, hv, hvn, hvq, _⟩ := hmem m hm
      have hSf : S.find m = some v := by rw [← hvn]; exact find_of_mem S hS.nodup v hv
      refine ⟨v, hv, hvq, hSf, ?_⟩
      rw [hfind1 m, hU g (by simp) m hm, hSf, Option.map_some, hszf]
      have hin : inSubset kb d (n0 :: rest) Si.vars v = true := by
        unfold inSubset
        rw [qual_not_coord hvq]
        have : (n0 :: rest).contains v.name = true := by
          rw [hvn, ← hg2]; simpa using hm
        simp only [Bool.false_eq_true, if_false, this, Bool.true_or]
      simp [hin]
    -- everything else is left alone
    have hB : ∀ m, m ∉ g.2 → S1.find m = Si.find m := by
      intro m hm
      rw [hfind1 m]
      cases hf : Si.find m with
      | none => rfl
      | some v' =>
        simp only [Option.map_some, Option.some.injEq]
        by_cases hd : d ∈ v'.dims
        · obtain ⟨w, hw, _, _, _, hsame⟩ := hl.attrs v' (find_mem _ _ _ hf)
          have hvw : v' = w := hsame hd
          have hname : v'.name = m := find_name _ _ _ hf
          have : inSubset kb d (n0 :: rest) Si.vars v' = false := by
            rw [hvw]
            apply not_inSubset kb ns d S Si (n0 :: rest) hS hl w hw (hvw ▸ hd)
            rw [← hvw, hname, ← hg2]; exact hm
          simp [this]
        · rw [floorVar_of_not_mem _ _ _ _ _ hd]; simp
    -- the link is kept
    have hl1 : Linked ns d S S1 := by
      intro w' hw'
      obtain ⟨w, hw, h1 | ⟨hin, h2⟩⟩ := hvars1 w' hw'
      · exact h1 ▸ hl w hw
      · by_cases hd : d ∈ w.dims
        · obtain ⟨w0, hw0, _, _, _, hsame⟩ := hl.attrs w hw
          have hww : w = w0 := hsame hd
          have hname : w0.name ∈ n0 :: rest := by
            apply Classical.byContradiction
            intro hno
            have := not_inSubset kb ns d S Si (n0 :: rest) hS hl w0 hw0 (hww ▸ hd) hno
            rw [← hww, hin] at this
            exact Bool.noConfusion this
          obtain ⟨v, hv, hvn, hvq, _⟩ := hmem w0.name (hg2 ▸ hname)
          have hvw0 : v = w0 := by
            have a := find_of_mem S hS.nodup v hv
            have b := find_of_mem S hS.nodup w0 hw0
            rw [hvn] at a
            exact Option.some.inj (a.symm.trans b)
          refine ⟨w0, hw0, Or.inr ⟨hvw0 ▸ hvq, v0, hv0, hv0q, ?_⟩⟩
          rw [h2, hww, hszf]
        · rw [floorVar_of_not_mem _ _ _ _ _ hd] at h2
          exact h2 ▸ hl w hw
    -- the rest of the groups
    have hflat' : (gs.flatMap (·.2)).Nodup ∧ ∀ m ∈ g.2, m ∉ gs.flatMap (·.2) := by
      rw [List.flatMap_cons, List.nodup_append] at hflat
      exact ⟨hflat.2.1, fun m hm hm2 => hflat.2.2 m hm m hm2 rfl⟩
    have hU1 : ∀ g' ∈ gs, ∀ m ∈ g'.2, S1.find m = S.find m := by
      intro g' hg' m hm
      have hnot : m ∉ g.2 := fun hmg =>
        hflat'.2 m hmg (List.mem_flatMap.mpr ⟨g', hg', hm⟩)
      rw [hB m hnot]
      exact hU g' (by simp [hg']) m hm
    obtain ⟨S', hrun, hsz', hnd', hl', hmem', hrest'⟩ :=
      floorGroups_spec kb ns d S hS gs S1 (fun g' hg' => hok g' (by simp [hg'])) hflat'.1
        (hsz1.trans hsz) hnd1 hl1 hU1
    refine ⟨S', ?_, hsz', hnd', hl', ?_, ?_⟩
    · obtain ⟨k, names⟩ := g
      simp only at hg2
      subst hg2
      simp only [floorGroups, hstep, hrun]
    · intro g' hg' m hm
      rcases List.mem_cons.mp hg' with rfl | hg''
      · obtain ⟨v, hv, _, hSf, hS1⟩ := hA m hm
        exact ⟨v0, v, hv0, hv0q, hg1, hSf, by rw [hrest' m (hflat'.2 m hm)]; exact hS1⟩
      · exact hmem' g' hg'' m hm
    · intro m hm
      simp only [List.flatMap_cons, List.mem_append, not_or] at hm
      rw [hrest' m hm.2, hB m hm.1]

theorem linked_refl (ns : List String) (d : String) (S : Dataset) : Linked ns d S S :=
  fun w hw => ⟨w, hw, Or.inl rfl⟩

theorem eq_of_name_eq (S : Dataset) (hn : NamesNodup S) (v w : Var) (hv : v ∈ S.vars) (hw : w ∈ S.vars)
    (h : v.name = w.name) : v = w := by
  have a := find_of_mem S hn v hv
  have b := find_of_mem S hn w hw
  rw [h] at a
  exact Option.some.inj (a.symm.trans b)

/-- the effect of one depth dimension: every qualifying variable is indexed with the floor
of (some member of) its group, nothing else changes -/
theorem floorDim_spec (kb : Bool) (ns : List String) (d : String) (S : Dataset) (hS : DimReady kb d S) :
    ∃ S', floorDim kb ns S d = some S' ∧ S'.sizes = S.sizes ∧ NamesNodup S' ∧ Linked ns d S S'
      ∧ (∀ v ∈ S.vars, qual ns d v = true → ∃ e ∈ S.vars, qual ns d e = true
            ∧ sameSet (spatialOf ns d e) (spatialOf ns d v) = true
            ∧ S'.find v.name = some (floorVar S.sz ns d e v))
      ∧ (∀ m v, S.find m = some v → qual ns d v = false → S'.find m = some v) := by
  obtain ⟨hok, hperm⟩ := groupsOf_ok ns d S.vars
  have hflat : ((groupsOf ns d S.vars).flatMap (·.2)).Nodup := by
    rw [hperm.nodup_iff]
    exact List.Nodup.sublist ((List.filter_sublist).map _) hS.nodup
  obtain ⟨S', hrun, hsz, hnd, hl, hmem, hrest⟩ :=
    floorGroups_spec kb ns d S hS _ S hok hflat rfl hS.nodup (linked_refl ns d S) (fun _ _ _ _ => rfl)
  refine ⟨S', hrun, hsz, hnd, hl, ?_, ?_⟩
  · intro v hv hq
    have hin : v.name ∈ (groupsOf ns d S.vars).flatMap (·.2) := by
      rw [hperm.mem_iff]
      exact List.mem_map_of_mem (f := (·.name)) (List.mem_filter.mpr ⟨hv, hq⟩)
    obtain ⟨g, hg, hm⟩ := List.mem_flatMap.mp hin
    obtain ⟨e, v', he, heq, hg1, hSf, hS'⟩ := hmem g hg v.name hm
    have hv' : v' = v := by
      rw [find_of_mem S hS.nodup v hv] at hSf
      exact (Option.some.inj hSf).symm
    obtain ⟨v'', hv'', hn'', _, hss⟩ := (hok g hg).2 v.name hm
    have : v'' = v := eq_of_name_eq S hS.nodup v'' v hv'' hv hn''
    refine ⟨e, he, heq, ?_, by rw [hS', hv']⟩
    rw [← hg1, ← this]; exact hss
  · intro m v hf hq
    have hname : v.name = m := find_name _ _ _ hf
    have hnot : m ∉ (groupsOf ns d S.vars).flatMap (·.2) := by
      rw [hperm.mem_iff]
      intro hmem'
      obtain ⟨q, hq', hqn⟩ := List.mem_map.mp hmem'
      obtain ⟨hq1, hq2⟩ := List.mem_filter.mp hq'
      have : q = v := eq_of_name_eq S hS.nodup q v hq1 (find_mem _ _ _ hf) (by rw [hqn, hname])
      rw [this, hq] at hq2
      exact Bool.noConfusion hq2
    rw [hrest m hnot, hf]

/-! ### all depth dimensions -/

/-- what `ocean_floor` assumes of the (normalised) dataset `N` with depth dimensions `ddims`:
unique names, at most one depth dimension per variable, xarray coordinates that have a depth
dimension are one-dimensional, and — for the code as written (`kb`) — no data variable that
has a depth dimension is named by a `bounds` attribute -/
structure FloorReady (kb : Bool) (ddims : List String) (N : Dataset) : Prop where
  nodup : NamesNodup N
  oneDepth : ∀ v ∈ N.vars, ∀ a ∈ ddims, ∀ b ∈ ddims, a ∈ v.dims → b ∈ v.dims → a = b
  coords1d : ∀ v ∈ N.vars, v.isCoord = true → ∀ d ∈ ddims, d ∈ v.dims → v.dims = [d]
  noBounds : kb = true → ∀ v ∈ N.vars, ∀ w ∈ N.vars, w.bounds = some v.name → v.isCoord = false →
    ∀ d ∈ ddims, d ∉ v.dims

/-- the state between two depth dimensions: same sizes and names; a variable that still has
a depth dimension is an untouched variable of `N` -/
structure OInv (ddims : List String) (N S : Dataset) : Prop where
  sizes : S.sizes = N.sizes
  nodup : NamesNodup S
  link : ∀ w' ∈ S.vars, ∃ w ∈ N.vars, w'.name = w.name ∧ w'.bounds = w.bounds ∧ w'.isCoord = w.isCoord
    ∧ ((∃ d ∈ ddims, d ∈ w'.dims) → w' = w)

theorem oinv_refl (ddims : List String) (N : Dataset) (h : NamesNodup N) : OInv ddims N N :=
  ⟨rfl, h, fun w hw => ⟨w, hw, rfl, rfl, rfl, fun _ => rfl⟩⟩

theorem dimReady_of_oinv (kb : Bool) (ddims : List String) (N S : Dataset) (hN : FloorReady kb ddims N)
    (hS : OInv ddims N S) (d : String) (hd : d ∈ ddims) : DimReady kb d S := by
  refine ⟨hS.nodup, ?_, ?_⟩
  · intro v hv hc hdv
    obtain ⟨w, hw, _, _, hcw, hsame⟩ := hS.link v hv
    have : v = w := hsame ⟨d, hd, hdv⟩
    subst this
    exact hN.coords1d v hw hc d hd hdv
  · intro hkb v hv w hw hb hc hdv
    obtain ⟨v0, hv0, _, _, _, hsame⟩ := hS.link v hv
    have : v = v0 := hsame ⟨d, hd, hdv⟩
    subst this
    obtain ⟨w0, hw0, _, hbw, _, _⟩ := hS.link w hw
    exact hN.noBounds hkb v hv0 w0 hw0 (by rw [← hbw]; exact hb) hc d hd hdv

theorem mem_spatialOf {ns : List String} {dd : String} {v : Var} {x : String} :
    x ∈ spatialOf ns dd v ↔ x ∈ v.dims ∧ x ≠ dd ∧ x ∉ ns := by
  simp [spatialOf]

/-- a floored variable has no depth dimension left -/
theorem floorVar_no_depth (kb : Bool) (ddims ns : List String) (N : Dataset) (hN : FloorReady kb ddims N)
    (d : String) (hd : d ∈ ddims) (e w : Var) (he : e ∈ N.vars) (hw : w ∈ N.vars)
    (hed : d ∈ e.dims) (hwd : d ∈ w.dims) (sz : String → Nat) :
    ∀ x ∈ ddims, x ∉ (floorVar sz ns d e w).dims := by
  intro x hx hmem
  simp only [floorVar, hwd, if_true, iselVar] at hmem
  rw [mem_iselDims] at hmem
  rcases hmem with ⟨h1, h2⟩ | ⟨_, h2⟩
  · exact h2 (hN.oneDepth w hw x hx d hd h1 hwd)
  · obtain ⟨h3, h4, _⟩ := mem_spatialOf.mp h2
    exact h4 (hN.oneDepth e he x hx d hd h3 hed)

theorem oinv_step (kb : Bool) (ddims ns : List String) (N S S' : Dataset) (hN : FloorReady kb ddims N)
    (hS : OInv ddims N S) (d : String) (hd : d ∈ ddims)
    (hsz : S'.sizes = S.sizes) (hnd : NamesNodup S') (hl : Linked ns d S S') : OInv ddims N S' := by
  refine ⟨hsz.trans hS.sizes, hnd, ?_⟩
  intro w' hw'
  obtain ⟨w, hw, h1 | ⟨hq, e, he, heq, h2⟩⟩ := hl w' hw'
  · exact h1 ▸ hS.link w hw
  · obtain ⟨w0, hw0, a1, a2, a3, hsame⟩ := hS.link w hw
    have hww : w = w0 := hsame ⟨d, hd, qual_mem hq⟩
    obtain ⟨e0, he0, _, _, _, hsame'⟩ := hS.link e he
    have hee : e = e0 := hsame' ⟨d, hd, qual_mem heq⟩
    refine ⟨w0, hw0, by rw [h2, floorVar_name, a1], by rw [h2, floorVar_bounds, a2],
      by rw [h2, floorVar_isCoord, a3], ?_⟩
    rintro ⟨x, hx, hxm⟩
    rw [h2] at hxm
    exact absurd hxm (floorVar_no_depth kb ddims ns N hN d hd e w (hee ▸ he0) (hww ▸ hw0)
      (qual_mem heq) (qual_mem hq) S.sz x hx)

/-- the loop over the depth dimensions never fails and keeps the invariant -/
theorem floorDims_ok (kb : Bool) (ddims ns : List String) (N : Dataset) (hN : FloorReady kb ddims N) :
    ∀ (order : List String) (S : Dataset), (∀ d ∈ order, d ∈ ddims) → OInv ddims N S →
      ∃ S', floorDims kb ns S order = some S' ∧ OInv ddims N S'
  | [], S, _, hS => ⟨S, rfl, hS⟩
  | d :: rest, S, hord, hS => by
    have hd : d ∈ ddims := hord d (by simp)
    obtain ⟨S1, hrun, hsz, hnd, hl, _, _⟩ :=
      floorDim_spec kb ns d S (dimReady_of_oinv kb ddims N S hN hS d hd)
    obtain ⟨S', hrun', hS'⟩ := floorDims_ok kb ddims ns N hN rest S1 (fun x hx => hord x (by simp [hx]))
      (oinv_step kb ddims ns N S S1 hN hS d hd hsz hnd hl)
    exact ⟨S', by simp [floorDims, hrun, hrun'], hS'⟩

/-- a variable that does not qualify for any of the dimensions is never touched -/
theorem floorDims_frame (kb : Bool) (ddims ns : List String) (N : Dataset) (hN : FloorReady kb ddims N) :
    ∀ (order : List String) (S S' : Dataset), (∀ d ∈ order, d ∈ ddims) → OInv ddims N S →
      floorDims kb ns S order = some S' →
      ∀ m v, S.find m = some v → (∀ d ∈ order, qual ns d v = false) → S'.find m = some v
  | [], S, S', _, _, hrun, m, v, hf, _ => by
    simp only [floorDims, Option.some.injEq] at hrun
    rw [← hrun]; exact hf
  | d :: rest, S, S', hord, hS, hrun, m, v, hf, hq => by
    have hd : d ∈ ddims := hord d (by simp)
    obtain ⟨S1, hrun1, hsz, hnd, hl, _, hframe⟩ :=
      floorDim_spec kb ns d S (dimReady_of_oinv kb ddims N S hN hS d hd)
    simp only [floorDims, hrun1] at hrun
    exact floorDims_frame kb ddims ns N hN rest S1 S' (fun x hx => hord x (by simp [hx]))
      (oinv_step kb ddims ns N S S1 hN hS d hd hsz hnd hl) hrun m v
      (hframe m v hf (hq d (by simp))) (fun x hx => hq x (by simp [hx]))

theorem qual_false_of_not_mem (ns : List String) (d : String) (v : Var) (h : d ∉ v.dims) : qual ns d v = false := by
  simp [qual, h]

/-- a qualifying variable of `N` with depth dimension `d` ends up indexed with the floor of
a member of its group -/
theorem floorDims_target (kb : Bool) (ddims ns : List String) (N : Dataset) (hN : FloorReady kb ddims N)
    (n : String) (u1 : Var) (d : String) (hd : d ∈ ddims) (hu : N.find n = some u1)
    (hq : qual ns d u1 = true) :
    ∀ (order : List String) (S S' : Dataset), (∀ x ∈ order, x ∈ ddims) → d ∈ order → OInv ddims N S →
      S.find n = some u1 → floorDims kb ns S order = some S' →
      ∃ e ∈ N.vars, qual ns d e = true ∧ sameSet (spatialOf ns d e) (spatialOf ns d u1) = true
        ∧ S'.find n = some (floorVar N.sz ns d e u1)
  | [], _, _, _, hmem, _, _, _ => by simp at hmem
  | x :: rest, S, S', hord, hmem, hS, hf, hrun => by
    have hx : x ∈ ddims := hord x (by simp)
    have hun : u1.name = n := find_name _ _ _ hu
    have hu1N : u1 ∈ N.vars := find_mem _ _ _ hu
    obtain ⟨S1, hrun1, hsz, hnd, hl, htarget, hframe⟩ :=
      floorDim_spec kb ns x S (dimReady_of_oinv kb ddims N S hN hS x hx)
    have hS1 := oinv_step kb ddims ns N S S1 hN hS x hx hsz hnd hl
    simp only [floorDims, hrun1] at hrun
    by_cases hxd : x = d
    · subst hxd
      obtain ⟨e, he, heq, hss, hfind⟩ := htarget u1 (find_mem _ _ _ hf) hq
      obtain ⟨e0, he0, _, _, _, hsame⟩ := hS.link e he
      have hee : e = e0 := hsame ⟨x, hx, qual_mem heq⟩
      rw [hun, sz_of_sizes S N hS.sizes] at hfind
      refine ⟨e, hee ▸ he0, heq, hss, ?_⟩
      -- the floored variable has no depth dimension, so the rest of the loop leaves it alone
      apply floorDims_frame kb ddims ns N hN rest S1 S' (fun y hy => hord y (by simp [hy])) hS1 hrun n _ hfind
      intro y hy
      apply qual_false_of_not_mem
      exact floorVar_no_depth kb ddims ns N hN x hx e u1 (hee ▸ he0) hu1N (qual_mem heq) (qual_mem hq) N.sz y
        (hord y (by simp [hy]))
    · have hxnot : x ∉ u1.dims := fun hxm => hxd (hN.oneDepth u1 hu1N x hx d hd hxm (qual_mem hq))
      have hf1 : S1.find n = some u1 := hframe n u1 hf (qual_false_of_not_mem ns x u1 hxnot)
      have hmem' : d ∈ rest := by
        rcases List.mem_cons.mp hmem with h | h
        · exact absurd h.symm hxd
        · exact h
      exact floorDims_target kb ddims ns N hN n u1 d hd hu hq rest S1 S' (fun y hy => hord y (by simp [hy]))
        hmem' hS1 hf1 hrun

/-! ### dropping the depth dimensions -/

theorem find?_filter_of_pos (p q : Var → Bool) : ∀ (l : List Var) (v : Var),
    l.find? q = some v → p v = true → (l.filter p).find? q = some v
  | [], _, h, _ => by simp at h
  | x :: xs, v, h, hp => by
    rw [List.find?_cons] at h
    by_cases hq : q x = true
    · simp only [hq] at h
      have : x = v := Option.some.inj h
      subst this
      simp [List.filter_cons, hp, hq]
    · have hq' : q x = false := by simpa using hq
      simp only [hq'] at h
      by_cases hpx : p x = true
      · simp only [List.filter_cons, hpx, if_true, List.find?_cons, hq']
        exact find?_filter_of_pos p q xs v h hp
      · simp only [List.filter_cons, hpx, Bool.false_eq_true, if_false]
        exact find?_filter_of_pos p q xs v h hp

theorem find_dropDims (S : Dataset) (dds : List String) (m : String) (v : Var) (h : S.find m = some v)
    (hno : ∀ x ∈ dds, x ∉ v.dims) : (S.dropDims dds).find m = some v := by
  unfold Dataset.find Dataset.dropDims
  apply find?_filter_of_pos _ _ _ _ h
  simp only [List.all_eq_true, decide_eq_true_eq]
  intro x hx hmem
  exact hno x hmem hx

end Ems.Depth
