import EmsModel.Core.CliSpec
/-
Lemmas/Cli.lean — helper lemmas for C20: `splitOn`, trimming, disjointness of the character
classes, and the equivalence of each whole-text parser with its declarative grammar.
-/
namespace Ems.Cli

/-! ### splitOn -/

theorem splitOn_ne_nil (sep : Char) : ∀ s, splitOn sep s ≠ []
  | [] => by simp [splitOn]
  | x :: xs => by
    simp only [splitOn]
    split
    · simp
    · split <;> simp

theorem splitOn_of_not_mem {sep : Char} : ∀ {p : List Char}, sep ∉ p → splitOn sep p = [p]
  | [], _ => rfl
  | x :: xs, h => by
    have hx : x ≠ sep := fun e => h (by simp [e])
    have hxs : sep ∉ xs := fun m => h (List.mem_cons_of_mem _ m)
    simp [splitOn, hx, splitOn_of_not_mem hxs]

theorem splitOn_append_sep {sep : Char} (rest : List Char) :
    ∀ {p : List Char}, sep ∉ p → splitOn sep (p ++ sep :: rest) = p :: splitOn sep rest
  | [], _ => by simp [splitOn]
  | x :: xs, h => by
    have hx : x ≠ sep := fun e => h (by simp [e])
    have hxs : sep ∉ xs := fun m => h (List.mem_cons_of_mem _ m)
    simp [splitOn, hx, splitOn_append_sep rest hxs]

theorem splitOn_inv {sep : Char} : ∀ (s p : List Char) (ps : List (List Char)),
    splitOn sep s = p :: ps →
    sep ∉ p ∧ ((ps = [] ∧ s = p) ∨ (∃ rest, s = p ++ sep :: rest ∧ splitOn sep rest = ps))
  | [], p, ps, h => by
    simp [splitOn] at h
    obtain ⟨rfl, rfl⟩ := h
    simp
  | x :: xs, p, ps, h => by
    simp only [splitOn] at h
    split at h
    · rename_i hx
      simp at h
      obtain ⟨rfl, rfl⟩ := h
      refine ⟨by simp, Or.inr ⟨xs, by simp [hx], rfl⟩⟩
    · rename_i hx
      split at h
      · rename_i hnil
        exact absurd hnil (splitOn_ne_nil sep xs)
      · rename_i p' ps' hsp
        simp at h
        obtain ⟨rfl, rfl⟩ := h
        obtain ⟨hmem, hrest⟩ := splitOn_inv xs p' ps' hsp
        refine ⟨?_, ?_⟩
        · intro m
          rcases List.mem_cons.mp m with e | m
          · exact hx e.symm
          · exact hmem m
        · rcases hrest with ⟨rfl, rfl⟩ | ⟨rest, rfl, hr⟩
          · exact Or.inl ⟨rfl, rfl⟩
          · exact Or.inr ⟨rest, by simp, hr⟩

theorem splitOn_singleton {sep : Char} {s p : List Char} (h : splitOn sep s = [p]) :
    s = p ∧ sep ∉ p := by
  obtain ⟨hm, hr⟩ := splitOn_inv s p [] h
  rcases hr with ⟨_, rfl⟩ | ⟨rest, _, hr⟩
  · exact ⟨rfl, hm⟩
  · exact absurd hr (splitOn_ne_nil sep rest)

theorem splitOn_cons_cons {sep : Char} {s p q : List Char} {qs : List (List Char)}
    (h : splitOn sep s = p :: q :: qs) :
    sep ∉ p ∧ ∃ rest, s = p ++ sep :: rest ∧ splitOn sep rest = q :: qs := by
  obtain ⟨hm, hr⟩ := splitOn_inv s p (q :: qs) h
  rcases hr with ⟨hnil, _⟩ | hr
  · simp at hnil
  · exact ⟨hm, hr⟩


/-! ### character classes are disjoint -/

/-- code points of the characters that separate or decorate digits -/
def specialCodes : List Nat := [95, 46, 44, 45] ++ spaceCodes

theorem special_not_inRun : ∀ n ∈ specialCodes, ∀ z ∈ ndZeros, inRun n z = false := by decide

theorem digitVal?_run {c : Char} {d : Nat} (h : digitVal? c = some d) :
    ∃ z ∈ ndZeros, inRun c.toNat z = true ∧ d = c.toNat - z := by
  unfold digitVal? at h
  split at h
  · rename_i z hz
    simp at h
    exact ⟨z, List.mem_of_find?_eq_some hz, List.find?_some hz, h.symm⟩
  · simp at h

theorem digit_not_special {c : Char} {d : Nat} (h : digitVal? c = some d) :
    c.toNat ∉ specialCodes := by
  intro hm
  obtain ⟨z, hz, hr, _⟩ := digitVal?_run h
  have := special_not_inRun _ hm z hz
  simp [hr] at this

theorem digitVal?_lt {c : Char} {d : Nat} (h : digitVal? c = some d) : d < 10 := by
  obtain ⟨z, _, hr, rfl⟩ := digitVal?_run h
  simp [inRun] at hr
  omega

/-- the characters a numeral is made of -/
def NumChar (c : Char) : Prop := isDigit c = true ∨ c = '_' ∨ c = '.' ∨ c = '-'

theorem isDigit_of_val {c : Char} {d : Nat} (h : digitVal? c = some d) : isDigit c = true := by
  simp [isDigit, h]

theorem isDigit_ne {c : Char} (h : isDigit c = true) :
    c ≠ '_' ∧ c ≠ '.' ∧ c ≠ ',' ∧ c ≠ '-' ∧ isSpace c = false := by
  unfold isDigit at h
  cases hd : digitVal? c with
  | none => simp [hd] at h
  | some d =>
    have hn := digit_not_special hd
    refine ⟨?_, ?_, ?_, ?_, ?_⟩
    · rintro rfl; exact hn (by decide)
    · rintro rfl; exact hn (by decide)
    · rintro rfl; exact hn (by decide)
    · rintro rfl; exact hn (by decide)
    · cases hs : isSpace c with
      | false => rfl
      | true =>
        exfalso
        apply hn
        unfold isSpace at hs
        have : c.toNat ∈ spaceCodes := by simpa using hs
        simp [specialCodes, this]

theorem NumChar.not_space {c : Char} (h : NumChar c) : isSpace c = false := by
  rcases h with h | rfl | rfl | rfl
  · exact (isDigit_ne h).2.2.2.2
  · decide
  · decide
  · decide

theorem NumChar.ne_comma {c : Char} (h : NumChar c) : c ≠ ',' := by
  rcases h with h | rfl | rfl | rfl
  · exact (isDigit_ne h).2.2.1
  · decide
  · decide
  · decide

theorem space_ne_comma {c : Char} (h : isSpace c = true) : c ≠ ',' := by
  rintro rfl; revert h; decide


/-! ### trimming -/

theorem mem_takeWhile_true {p : Char → Bool} : ∀ {l : List Char} {c : Char}, c ∈ l.takeWhile p → p c = true
  | [], _, m => by simp at m
  | x :: xs, c, m => by
    simp only [List.takeWhile] at m
    split at m
    · rename_i hx
      rcases List.mem_cons.mp m with rfl | m
      · exact hx
      · exact mem_takeWhile_true m
    · simp at m

theorem trimLeft_blank_append {w n : List Char} (hw : Blank w) (hn : ∀ c ∈ n, isSpace c = false) :
    trimLeft (w ++ n) = n := by
  induction w with
  | nil =>
    cases n with
    | nil => rfl
    | cons c cs => simp [trimLeft, hn c (by simp)]
  | cons x xs ih =>
    have hx : isSpace x = true := hw x (by simp)
    have hxs : Blank xs := fun c m => hw c (List.mem_cons_of_mem _ m)
    have := ih hxs
    simp only [trimLeft] at this ⊢
    simp [hx, this]

theorem trimLeft_blank_cons {w : List Char} (hw : Blank w) {c : Char} {rest : List Char}
    (hc : isSpace c = false) : trimLeft (w ++ c :: rest) = c :: rest := by
  induction w with
  | nil => simp [trimLeft, hc]
  | cons x xs ih =>
    have hx : isSpace x = true := hw x (by simp)
    have := ih (fun c m => hw c (List.mem_cons_of_mem _ m))
    simp only [trimLeft] at this ⊢
    simp [hx, this]

theorem trimRight_append_blank {w n : List Char} (hw : Blank w) (hn : ∀ c ∈ n, isSpace c = false) :
    trimRight (n ++ w) = n := by
  have h1 : Blank w.reverse := fun c m => hw c (by simpa using m)
  have h2 : ∀ c ∈ n.reverse, isSpace c = false := fun c m => hn c (by simpa using m)
  have := trimLeft_blank_append h1 h2
  simp only [trimLeft] at this
  simp [trimRight, this]

theorem trimLeft_decomp (f : List Char) : ∃ w, Blank w ∧ f = w ++ trimLeft f :=
  ⟨f.takeWhile isSpace, fun _ m => mem_takeWhile_true m,
    by simp [trimLeft, List.takeWhile_append_dropWhile]⟩

theorem trimRight_decomp (f : List Char) : ∃ w, Blank w ∧ f = trimRight f ++ w := by
  refine ⟨(f.reverse.takeWhile isSpace).reverse, ?_, ?_⟩
  · intro c m
    have : c ∈ f.reverse.takeWhile isSpace := by simpa using m
    exact mem_takeWhile_true this
  · have := @List.takeWhile_append_dropWhile _ isSpace f.reverse
    have h2 := congrArg List.reverse this
    simp only [List.reverse_append, List.reverse_reverse] at h2
    simp [trimRight, h2]

/-! ### `\d+` -/

theorem digitsOf?_iff : ∀ (cs : List Char) (ds : List Nat), digitsOf? cs = some ds ↔ IsDigitRun cs ds
  | [], ds => by
    simp only [digitsOf?]
    constructor
    · intro h; cases h
    · intro h; cases h
  | [c], ds => by
    simp only [digitsOf?]
    constructor
    · intro h
      cases hd : digitVal? c with
      | none => simp [hd] at h
      | some d => simp [hd] at h; subst h; exact .one hd
    · intro h
      cases h with
      | one hd => simp [hd]
      | cons hd hr => cases hr
  | c :: c' :: cs, ds => by
    have ih := digitsOf?_iff (c' :: cs)
    simp only [digitsOf?]
    constructor
    · intro h
      split at h
      · rename_i d ds' hd hds
        simp at h; subst h
        exact .cons hd ((ih ds').mp hds)
      · simp at h
    · intro h
      cases h with
      | cons hd hr =>
        rename_i d ds'
        have := (ih ds').mpr hr
        simp [hd, this]

theorem IsDigitRun.ne_nil {cs ds} (h : IsDigitRun cs ds) : cs ≠ [] := by
  cases h <;> simp

theorem IsDigitRun.all_digit {cs ds} (h : IsDigitRun cs ds) : ∀ c ∈ cs, isDigit c = true := by
  induction h with
  | one hd => intro c m; simp at m; subst m; exact isDigit_of_val hd
  | cons hd _ ih =>
    intro c m
    rcases List.mem_cons.mp m with rfl | m
    · exact isDigit_of_val hd
    · exact ih c m

theorem IsDigitRun.not_mem_underscore {cs ds} (h : IsDigitRun cs ds) : '_' ∉ cs :=
  fun m => (isDigit_ne (h.all_digit _ m)).1 rfl

/-! ### NUMBER -/

theorem numberOfGroups_ne_nil {G ds} (h : numberOfGroups G = some ds) : G ≠ [] := by
  rintro rfl; simp [numberOfGroups] at h

theorem number?_of_isNumber {cs ds} (h : IsNumber cs ds) : number? cs = some ds := by
  induction h with
  | run hr =>
    unfold number?
    rw [splitOn_of_not_mem hr.not_mem_underscore]
    simp [numberOfGroups, (digitsOf?_iff _ _).mpr hr]
  | @more cs ds cs' ds' hr _ ih =>
    unfold number? at ih ⊢
    rw [splitOn_append_sep _ hr.not_mem_underscore]
    have hne := numberOfGroups_ne_nil ih
    cases hG : splitOn '_' cs' with
    | nil => exact absurd hG hne
    | cons g gs =>
      rw [hG] at ih
      simp [numberOfGroups, (digitsOf?_iff _ _).mpr hr, ih]

theorem isNumber_of_groups : ∀ (G : List (List Char)) (cs : List Char) (ds : List Nat),
    splitOn '_' cs = G → numberOfGroups G = some ds → IsNumber cs ds
  | [], _, _, _, h => by simp [numberOfGroups] at h
  | [g], cs, ds, hs, h => by
    obtain ⟨rfl, _⟩ := splitOn_singleton hs
    simp only [numberOfGroups] at h
    exact .run ((digitsOf?_iff _ _).mp h)
  | g :: g' :: gs, cs, ds, hs, h => by
    obtain ⟨_, rest, rfl, hrest⟩ := splitOn_cons_cons hs
    simp only [numberOfGroups] at h
    split at h
    · rename_i d ds' hd hds
      simp at h; subst h
      exact .more ((digitsOf?_iff _ _).mp hd) (isNumber_of_groups (g' :: gs) rest ds' hrest hds)
    · simp at h

theorem number?_iff (cs : List Char) (ds : List Nat) : number? cs = some ds ↔ IsNumber cs ds :=
  ⟨fun h => isNumber_of_groups _ cs ds rfl h, number?_of_isNumber⟩

theorem IsNumber.ne_nil {cs ds} (h : IsNumber cs ds) : cs ≠ [] := by
  cases h with
  | run hr => exact hr.ne_nil
  | more hr _ => simp

theorem IsNumber.chars {cs ds} (h : IsNumber cs ds) : ∀ c ∈ cs, isDigit c = true ∨ c = '_' := by
  induction h with
  | run hr => exact fun c m => Or.inl (hr.all_digit c m)
  | more hr _ ih =>
    intro c m
    rcases List.mem_append.mp m with m | m
    · exact Or.inl (hr.all_digit c m)
    · rcases List.mem_cons.mp m with rfl | m
      · exact Or.inr rfl
      · exact ih c m

theorem IsNumber.not_mem_dot {cs ds} (h : IsNumber cs ds) : '.' ∉ cs := by
  intro m
  rcases h.chars _ m with hd | he
  · exact (isDigit_ne hd).2.1 rfl
  · revert he; decide

theorem IsNumber.head_ne_minus {c cs ds} (h : IsNumber (c :: cs) ds) : c ≠ '-' := by
  rintro rfl
  rcases h.chars '-' (by simp) with hd | he
  · exact (isDigit_ne hd).2.2.2.1 rfl
  · revert he; decide


/-! ### the unsigned alternatives -/

theorem unsigned?_of_isUnsigned {cs v} (h : IsUnsigned cs v) : unsigned? cs = some v := by
  cases h with
  | int hn =>
    unfold unsigned?
    rw [splitOn_of_not_mem hn.not_mem_dot]
    simp [(number?_iff _ _).mpr hn]
  | @intDot ip ds hn =>
    unfold unsigned?
    rw [show ip ++ ['.'] = ip ++ '.' :: [] from rfl, splitOn_append_sep _ hn.not_mem_dot]
    cases ip with
    | nil => exact absurd rfl hn.ne_nil
    | cons c cs' => simp [splitOn, (number?_iff _ _).mpr hn]
  | @frac fp ds hn =>
    unfold unsigned?
    rw [show '.' :: fp = [] ++ '.' :: fp from rfl, splitOn_append_sep _ (by simp),
      splitOn_of_not_mem hn.not_mem_dot]
    cases fp with
    | nil => exact absurd rfl hn.ne_nil
    | cons c cs' => simp [(number?_iff _ _).mpr hn]
  | @intFrac ip ds fp ds' hi hf =>
    unfold unsigned?
    rw [splitOn_append_sep _ hi.not_mem_dot, splitOn_of_not_mem hf.not_mem_dot]
    cases ip with
    | nil => exact absurd rfl hi.ne_nil
    | cons c cs' =>
      cases fp with
      | nil => exact absurd rfl hf.ne_nil
      | cons c2 cs2 => simp [(number?_iff _ _).mpr hi, (number?_iff _ _).mpr hf]

theorem isUnsigned_of_unsigned? {cs v} (h : unsigned? cs = some v) : IsUnsigned cs v := by
  unfold unsigned? at h
  split at h
  · rename_i ip hs
    obtain ⟨rfl, _⟩ := splitOn_singleton hs
    cases hn : number? cs with
    | none => simp [hn] at h
    | some ds => simp [hn] at h; subst h; exact .int ((number?_iff _ _).mp hn)
  · rename_i ip fp hs
    obtain ⟨_, rest, rfl, hrest⟩ := splitOn_cons_cons hs
    obtain ⟨rfl, _⟩ := splitOn_singleton hrest
    split at h
    · simp at h
    · simp only [Option.map_eq_some_iff] at h
      obtain ⟨ds, hn, rfl⟩ := h
      exact .intDot ((number?_iff _ _).mp hn)
    · simp only [Option.map_eq_some_iff] at h
      obtain ⟨ds, hn, rfl⟩ := h
      have := IsUnsigned.frac ((number?_iff _ _).mp hn)
      simpa using this
    · split at h
      · rename_i i f hi hf
        simp at h; subst h
        exact .intFrac ((number?_iff _ _).mp hi) ((number?_iff _ _).mp hf)
      · simp at h
  · simp at h

theorem unsigned?_iff (cs : List Char) (v : Rat) : unsigned? cs = some v ↔ IsUnsigned cs v :=
  ⟨isUnsigned_of_unsigned?, unsigned?_of_isUnsigned⟩

theorem IsUnsigned.ne_nil {cs v} (h : IsUnsigned cs v) : cs ≠ [] := by
  cases h with
  | int hn => exact hn.ne_nil
  | intDot hn => simp
  | frac hn => simp
  | intFrac hi hf => simp

theorem IsUnsigned.chars {cs v} (h : IsUnsigned cs v) :
    ∀ c ∈ cs, isDigit c = true ∨ c = '_' ∨ c = '.' := by
  intro c m
  cases h with
  | int hn => rcases hn.chars c m with h | h <;> simp [h]
  | intDot hn =>
    rcases List.mem_append.mp m with m | m
    · rcases hn.chars c m with h | h <;> simp [h]
    · simp at m; simp [m]
  | frac hn =>
    rcases List.mem_cons.mp m with rfl | m
    · simp
    · rcases hn.chars c m with h | h <;> simp [h]
  | intFrac hi hf =>
    rcases List.mem_append.mp m with m | m
    · rcases hi.chars c m with h | h <;> simp [h]
    · rcases List.mem_cons.mp m with rfl | m
      · simp
      · rcases hf.chars c m with h | h <;> simp [h]

theorem IsUnsigned.head_ne_minus {c cs v} (h : IsUnsigned (c :: cs) v) : c ≠ '-' := by
  rintro rfl
  rcases h.chars '-' (by simp) with hd | he | he
  · exact (isDigit_ne hd).2.2.2.1 rfl
  · revert he; decide
  · revert he; decide

/-! ### DECIMAL -/

theorem decimal?_iff (cs : List Char) (v : Rat) : decimal? cs = some v ↔ IsDecimal cs v := by
  constructor
  · intro h
    cases cs with
    | nil => simp [decimal?] at h
    | cons c body =>
      simp only [decimal?] at h
      split at h
      · rename_i hc
        subst hc
        cases hu : unsigned? body with
        | none => simp [hu] at h
        | some v' => simp [hu] at h; subst h; exact .neg (isUnsigned_of_unsigned? hu)
      · exact .pos (isUnsigned_of_unsigned? h)
  · intro h
    cases h with
    | pos hu =>
      cases cs with
      | nil => exact absurd rfl hu.ne_nil
      | cons c body =>
        simp [decimal?, hu.head_ne_minus, unsigned?_of_isUnsigned hu]
    | neg hu => simp [decimal?, unsigned?_of_isUnsigned hu]

theorem IsDecimal.ne_nil {cs v} (h : IsDecimal cs v) : cs ≠ [] := by
  cases h with
  | pos hu => exact hu.ne_nil
  | neg hu => simp

theorem IsDecimal.chars {cs v} (h : IsDecimal cs v) : ∀ c ∈ cs, NumChar c := by
  intro c m
  cases h with
  | pos hu =>
    rcases hu.chars c m with h | h | h
    · exact Or.inl h
    · exact Or.inr (Or.inl h)
    · exact Or.inr (Or.inr (Or.inl h))
  | neg hu =>
    rcases List.mem_cons.mp m with rfl | m
    · exact Or.inr (Or.inr (Or.inr rfl))
    · rcases hu.chars c m with h | h | h
      · exact Or.inl h
      · exact Or.inr (Or.inl h)
      · exact Or.inr (Or.inr (Or.inl h))

theorem IsDecimal.no_space {cs v} (h : IsDecimal cs v) : ∀ c ∈ cs, isSpace c = false :=
  fun c m => (h.chars c m).not_space

theorem IsDecimal.no_comma {cs v} (h : IsDecimal cs v) : ',' ∉ cs :=
  fun m => (h.chars _ m).ne_comma rfl

theorem Blank.no_comma {w : List Char} (h : Blank w) : ',' ∉ w :=
  fun m => space_ne_comma (h _ m) rfl


/-! ### the whole bounds text -/

theorem not_mem_append {c : Char} {a b : List Char} (ha : c ∉ a) (hb : c ∉ b) : c ∉ a ++ b :=
  fun m => (List.mem_append.mp m).elim ha hb

theorem no_space_append {a b : List Char} (ha : ∀ c ∈ a, isSpace c = false)
    (hb : ∀ c ∈ b, isSpace c = false) : ∀ c ∈ a ++ b, isSpace c = false :=
  fun c m => (List.mem_append.mp m).elim (ha c) (hb c)

theorem parseBounds_of_isBounds {s : List Char} {b : Bounds} (h : IsBounds s b) :
    parseBounds s = some b := by
  obtain ⟨n1, n2, n3, n4, w1, w2, w3, w4, w5, w6, rfl, hw1, hw2, hw3, hw4, hw5, hw6,
    h1, h2, h3, h4⟩ := h
  have e : n1 ++ w1 ++ ',' :: w2 ++ n2 ++ w3 ++ ',' :: w4 ++ n3 ++ w5 ++ ',' :: w6 ++ n4
      = (n1 ++ w1) ++ ',' :: ((w2 ++ n2 ++ w3) ++ ',' :: ((w4 ++ n3 ++ w5) ++ ',' :: (w6 ++ n4))) := by
    simp [List.append_assoc]
  have c0 : ',' ∉ n1 ++ w1 := not_mem_append h1.no_comma hw1.no_comma
  have c1 : ',' ∉ w2 ++ n2 ++ w3 :=
    not_mem_append (not_mem_append hw2.no_comma h2.no_comma) hw3.no_comma
  have c2 : ',' ∉ w4 ++ n3 ++ w5 :=
    not_mem_append (not_mem_append hw4.no_comma h3.no_comma) hw5.no_comma
  have c3 : ',' ∉ w6 ++ n4 := not_mem_append hw6.no_comma h4.no_comma
  have t0 : trimRight (n1 ++ w1) = n1 := trimRight_append_blank hw1 h1.no_space
  have t1 : trimRight (trimLeft (w2 ++ n2 ++ w3)) = n2 := by
    rw [List.append_assoc]
    -- trimLeft stops at the first character of n2
    have hne := h2.ne_nil
    cases n2 with
    | nil => exact absurd rfl hne
    | cons c cs =>
      have hc : isSpace c = false := h2.no_space c (by simp)
      have : trimLeft (w2 ++ ((c :: cs) ++ w3)) = (c :: cs) ++ w3 :=
        trimLeft_blank_cons hw2 hc
      rw [this]
      exact trimRight_append_blank hw3 h2.no_space
  have t2 : trimRight (trimLeft (w4 ++ n3 ++ w5)) = n3 := by
    rw [List.append_assoc]
    have hne := h3.ne_nil
    cases n3 with
    | nil => exact absurd rfl hne
    | cons c cs =>
      have hc : isSpace c = false := h3.no_space c (by simp)
      have : trimLeft (w4 ++ ((c :: cs) ++ w5)) = (c :: cs) ++ w5 :=
        trimLeft_blank_cons hw4 hc
      rw [this]
      exact trimRight_append_blank hw5 h3.no_space
  have t3 : trimLeft (w6 ++ n4) = n4 := trimLeft_blank_append hw6 h4.no_space
  unfold parseBounds
  rw [e, splitOn_append_sep _ c0, splitOn_append_sep _ c1, splitOn_append_sep _ c2,
    splitOn_of_not_mem c3]
  simp only [t0, t1, t2, t3, (decimal?_iff _ _).mpr h1, (decimal?_iff _ _).mpr h2,
    (decimal?_iff _ _).mpr h3, (decimal?_iff _ _).mpr h4]

theorem isBounds_of_parseBounds {s : List Char} {b : Bounds} (h : parseBounds s = some b) :
    IsBounds s b := by
  unfold parseBounds at h
  split at h
  · rename_i f0 f1 f2 f3 hs
    obtain ⟨_, r1, rfl, hr1⟩ := splitOn_cons_cons hs
    obtain ⟨_, r2, rfl, hr2⟩ := splitOn_cons_cons hr1
    obtain ⟨_, r3, rfl, hr3⟩ := splitOn_cons_cons hr2
    obtain ⟨rfl, _⟩ := splitOn_singleton hr3
    split at h
    · rename_i a b' c d ha hb hc hd
      simp at h; subst h
      obtain ⟨w1, hw1, e0⟩ := trimRight_decomp f0
      obtain ⟨w2, hw2, e1⟩ := trimLeft_decomp f1
      obtain ⟨w3, hw3, e1'⟩ := trimRight_decomp (trimLeft f1)
      obtain ⟨w4, hw4, e2⟩ := trimLeft_decomp f2
      obtain ⟨w5, hw5, e2'⟩ := trimRight_decomp (trimLeft f2)
      obtain ⟨w6, hw6, e3⟩ := trimLeft_decomp r3
      refine ⟨trimRight f0, trimRight (trimLeft f1), trimRight (trimLeft f2), trimLeft r3,
        w1, w2, w3, w4, w5, w6, ?_, hw1, hw2, hw3, hw4, hw5, hw6,
        (decimal?_iff _ _).mp ha, (decimal?_iff _ _).mp hb, (decimal?_iff _ _).mp hc,
        (decimal?_iff _ _).mp hd⟩
      have e1'' : f1 = w2 ++ (trimRight (trimLeft f1) ++ w3) := by rw [← e1', ← e1]
      have e2'' : f2 = w4 ++ (trimRight (trimLeft f2) ++ w5) := by rw [← e2', ← e2]
      conv => lhs; rw [e0, e1'', e2'', e3]
      simp [List.append_assoc]
    · simp at h
  · simp at h

theorem all_append {P : Char → Prop} {a b : List Char} (ha : ∀ c ∈ a, P c) (hb : ∀ c ∈ b, P c) :
    ∀ c ∈ a ++ b, P c := fun c m => (List.mem_append.mp m).elim (ha c) (hb c)


end Ems.Cli
