import EmsModel.Core.Clip
import EmsModel.Lemmas.Select
/-! Reads of cropped / masked / row-selected arrays. Core Lean only. -/
namespace Ems

theorem lookup_map_values (g : String → Nat → Nat) : ∀ (e : Env) (d : String),
    List.lookup d (e.map fun p => (p.1, g p.1 p.2)) = (List.lookup d e).map (g d)
  | [], d => rfl
  | (k, v) :: es, d => by
    simp only [List.map_cons, List.lookup_cons]
    cases h : d == k with
    | true =>
      have : d = k := by simpa using h
      subst this; simp
    | false => simp only [h]; exact lookup_map_values g es d

namespace NArr
variable {α : Type}

/-- Reading a tabulated array when the tabulated function only looks at the indexes the
environment assigns to the array's own dimensions. -/
theorem get_ofFn_congr [Inhabited α] (dims : List Dim) (f : Env → Option α) (e : Env) (v : String → Nat)
    (hn : (dims.map (·.1)).Nodup)
    (hv : ∀ d ∈ dims, e.get d.1 = some (v d.1) ∧ v d.1 < d.2)
    (hf : ∀ e1 e2 : Env, (∀ d ∈ dims.map (·.1), e1.get d = e2.get d) → f e1 = f e2) :
    (ofFn dims f).get? e = some ((f e).getD default) := by
  have hidx : e.index (dims.map (·.1)) = some ((dims.map (·.1)).map v) :=
    index_of_fun e v _ (by
      intro d hd
      obtain ⟨d', hd', rfl⟩ := List.mem_map.mp hd
      exact (hv d' hd').1)
  have hr := inRange_map v dims (fun d hd => (hv d hd).2)
  rw [get_ofFn dims f e _ hidx hr]
  congr 2
  apply hf
  intro d hd
  simp only [Env.get]
  rw [lookup_zip_map v _ hn d hd]
  obtain ⟨d', hd', rfl⟩ := List.mem_map.mp hd
  exact (hv d' hd').1.symm

end NArr
end Ems
