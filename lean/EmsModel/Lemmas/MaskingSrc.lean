import EmsModel.Core.MaskingSrc
import EmsModel.Lemmas.Shape
import EmsModel.Lemmas.Ravel
import EmsModel.Lemmas.NDArray
/-!
Lemmas/MaskingSrc.lean — facts about the evaluators of `Core/MaskingSrc.lean` that do not depend on the generated terms:
a `true` in a Boolean list has a first position, also from the far end; every projection `anyAlong` of a well-formed mask
that marks something marks something; an `MsBoundsProg` whose pieces are the expected ones computes `allBounds`.
-/
namespace Ems
open NArr

/-- a list containing `b` has a first position holding it -/
theorem msIdxOf_of_mem (l : List Bool) (b : Bool) (h : b ∈ l) : ∃ a, l.idxOf? b = some a ∧ a < l.length := by
  cases h1 : l.idxOf? b with
  | none => rw [List.idxOf?_eq_none_iff] at h1; exact absurd h h1
  | some a => exact ⟨a, rfl, (List.idxOf?_eq_some_iff.mp h1).1⟩

/-- … and a first position counted from the far end -/
theorem msIdxOf_reverse_of_mem (l : List Bool) (b : Bool) (h : b ∈ l) :
    ∃ r, l.reverse.idxOf? b = some r ∧ r < l.length := by
  obtain ⟨r, hr, hlt⟩ := msIdxOf_of_mem l.reverse b (List.mem_reverse.mpr h)
  exact ⟨r, hr, by simpa using hlt⟩

/-- `trueBounds` of a list containing `true`, spelled out -/
theorem msTrueBounds_of_mem (l : List Bool) (a r : Nat) (ha : l.idxOf? true = some a)
    (hr : l.reverse.idxOf? true = some r) : trueBounds l = some (a, l.length - r) := by
  simp [trueBounds, ha, hr]

/-- all-or-nothing over a list on which nothing fails is the `filterMap` -/
theorem msAllSome_map_of_isSome {β γ : Type} (f : β → Option γ) : ∀ (l : List β), (∀ x ∈ l, (f x).isSome) →
    allSome (l.map f) = some (l.filterMap f)
  | [], _ => rfl
  | x :: xs, h => by
    have hx := h x (by simp)
    obtain ⟨y, hy⟩ := Option.isSome_iff_exists.mp hx
    have ih := msAllSome_map_of_isSome f xs (fun z hz => h z (by simp [hz]))
    simp [allSome, hy, ih]

/-- for an in-range multi-index, looking a dimension name up in `names.zip idx` yields an index below the size that
`dims.find?` reports for that name -/
theorem msLookup_inRange : ∀ (dims : List Dim) (idx : List Nat), InRange (dims.map (·.2)) idx →
    ∀ d ∈ dims.map (·.1), ∃ x k, dims.find? (fun x => x.1 == d) = some x ∧
      List.lookup d ((dims.map (·.1)).zip idx) = some k ∧ k < x.2
  | [], _, _, d, hd => by simp at hd
  | _ :: _, [], hr, _, _ => by simp [InRange] at hr
  | (n0, s0) :: ds, i :: is, hr, d, hd => by
    simp only [List.map_cons, InRange] at hr
    by_cases h : n0 = d
    · subst h
      exact ⟨(n0, s0), i, by simp, by simp, hr.1⟩
    · have hd' : d ∈ ds.map (·.1) := by
        simp only [List.map_cons, List.mem_cons] at hd
        rcases hd with h' | h'
        · exact absurd h'.symm h
        · exact h'
      obtain ⟨x, k, hx, hk, hlt⟩ := msLookup_inRange ds is hr.2 d hd'
      have hb : (n0 == d) = false := by simp [h]
      have hb' : (d == n0) = false := by simp [Ne.symm h]
      refine ⟨x, k, ?_, ?_, hlt⟩
      · simp [hb, hx]
      · simp [List.lookup_cons, hb', hk]

/-- **every projection of a well-formed mask that marks a cell marks a position** -/
theorem msAnyAlong_has_true (m : NArr Bool) (hwf : m.WF) (h : m.data.any id = true) :
    ∀ d ∈ m.names, true ∈ m.anyAlong d := by
  intro d hd
  obtain ⟨b, hb, hbt⟩ := List.any_eq_true.mp h
  simp only [id] at hbt
  subst hbt
  obtain ⟨p, hp, hpv⟩ := List.getElem_of_mem hb
  have hp' : p < size m.shape := by rw [← hwf.1]; exact hp
  obtain ⟨idx, hidx⟩ := unravel_isSome_of_lt m.shape p hp'
  have hrange : InRange m.shape idx := by
    have := ravel_of_unravel m.shape p idx hidx
    exact ravel_inRange m.shape idx p this
  obtain ⟨x, k, hx, hk, hlt⟩ := msLookup_inRange m.dims idx hrange d hd
  unfold anyAlong
  rw [hx]
  apply List.mem_map.mpr
  refine ⟨k, List.mem_range.mpr hlt, ?_⟩
  apply List.any_eq_true.mpr
  refine ⟨p, List.mem_range.mpr hp, ?_⟩
  have hk' : List.lookup d (m.names.zip idx) = some k := hk
  simp [hidx, hk', List.getD_eq_getElem?_getD, List.getElem?_eq_getElem hp, hpv]

/-- one mask: a program with the expected guard, loop and reduction, whose slice is `trueBounds` on every vector containing a
`true`, computes `maskBounds` -/
theorem msRunMask_eq (p : MsBoundsProg) (hd : p.dimIter = .maskDimsInOrder) (hr : p.reduce = .anyOverOtherDims)
    (hg : p.guard = .raiseIfNoTrue) (hs : ∀ l, true ∈ l → p.slice.evalNat l = trueBounds l)
    (m : NArr Bool) (hwf : m.WF) : p.runMask m = m.maskBounds := by
  unfold MsBoundsProg.runMask maskBounds
  rw [hd, hr, hg]
  simp only
  cases hany : m.data.any id with
  | false => simp
  | true =>
    simp only [Bool.not_true, Bool.false_eq_true, if_false]
    have hall : ∀ d ∈ m.names, p.slice.evalNat (m.anyAlong d) = trueBounds (m.anyAlong d) :=
      fun d hd' => hs _ (msAnyAlong_has_true m hwf hany d hd')
    have hmap : (m.names.map fun d => (p.slice.evalNat (m.anyAlong d)).map fun b => (d, b)) =
        m.names.map fun d => (trueBounds (m.anyAlong d)).map fun b => (d, b) :=
      List.map_congr_left (fun d hd' => by rw [hall d hd'])
    rw [hmap]
    apply msAllSome_map_of_isSome
    intro d hd'
    have hmem := msAnyAlong_has_true m hwf hany d hd'
    obtain ⟨a, ha, _⟩ := msIdxOf_of_mem _ true hmem
    obtain ⟨r, hr', _⟩ := msIdxOf_reverse_of_mem _ true hmem
    rw [msTrueBounds_of_mem _ a r ha hr']
    rfl

/-- all masks: … computes `allBounds` -/
theorem msRun_eq (p : MsBoundsProg) (hi : p.maskIter = .dataVarsInOrder) (hst : p.store = .byDimension)
    (hd : p.dimIter = .maskDimsInOrder) (hr : p.reduce = .anyOverOtherDims)
    (hg : p.guard = .raiseIfNoTrue) (hs : ∀ l, true ∈ l → p.slice.evalNat l = trueBounds l)
    (masks : List (String × NArr Bool)) (hwf : ∀ m ∈ masks, m.2.WF) : p.run masks = allBounds masks := by
  unfold MsBoundsProg.run allBounds
  rw [hi, hst]
  simp only
  generalize (some [] : Option (List (String × Nat × Nat))) = acc
  induction masks generalizing acc with
  | nil => rfl
  | cons m rest ih =>
    simp only [List.foldl_cons]
    rw [msRunMask_eq p hd hr hg hs m.2 (hwf m (by simp))]
    exact ih (fun x hx => hwf x (by simp [hx])) _

end Ems
