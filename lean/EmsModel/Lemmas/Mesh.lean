import EmsModel.Core.Mesh
/-!
Lemmas/Mesh.lean — helper lemmas about rows, transposition, de-duplication, edge lookup and
the row-filling fold of `Core/Mesh.lean`.
-/
namespace Ems.Mesh

/-! ### pad / compress / optAll -/

theorem compress_pad {α} (w : Nat) (l : List α) : compress (pad w l) = l := by
  simp [compress, pad, List.filterMap_append, List.filterMap_map]

theorem length_pad {α} {w : Nat} {l : List α} (h : l.length ≤ w) : (pad w l).length = w := by
  simp [pad]; omega

theorem getElem?_pad_lt {α} {w : Nat} {l : List α} {c : Nat} (h : c < l.length) :
    (pad w l)[c]? = some (some l[c]) := by
  simp [pad, List.getElem?_append_left, h]

theorem getElem?_pad_ge {α} {w : Nat} {l : List α} {c : Nat} (h : l.length ≤ c) (hw : c < w) :
    (pad w l)[c]? = some none := by
  simp only [pad]
  rw [List.getElem?_append_right (by simpa using h)]
  rw [List.getElem?_replicate]
  simp
  omega

theorem mem_pad_some {α} {w : Nat} {l : List α} {a : α} : some a ∈ pad w l ↔ a ∈ l := by
  simp [pad]

theorem mem_map_ofNat {l : List Nat} {f : Nat} : (f : Int) ∈ l.map Int.ofNat ↔ f ∈ l := by
  simp only [List.mem_map]
  constructor
  · rintro ⟨a, ha, h⟩
    have : a = f := by
      have h' : (a : Int) = (f : Int) := h
      omega
    exact this ▸ ha
  · intro h; exact ⟨f, h, rfl⟩

theorem optAll_eq_some {α} : ∀ (l : List (Option α)) (r : List α), optAll l = some r ↔ l = r.map some
  | [], r => by cases r <;> simp [optAll]
  | none :: xs, r => by cases r <;> simp [optAll]
  | some x :: xs, r => by
    cases r with
    | nil => simp [optAll]
    | cons y ys =>
      simp only [optAll, Option.map_eq_some_iff, List.map_cons, List.cons.injEq, Option.some.injEq]
      constructor
      · rintro ⟨a, ha, h1, h2⟩
        subst h1 h2
        exact ⟨rfl, (optAll_eq_some xs a).mp ha⟩
      · rintro ⟨h1, h2⟩
        exact ⟨ys, (optAll_eq_some xs ys).mpr h2, h1, rfl⟩

theorem optAll_isSome_of_forall {α} : ∀ (l : List (Option α)), (∀ x ∈ l, x.isSome) → (optAll l).isSome
  | [], _ => rfl
  | none :: _, h => by simpa using h none (by simp)
  | some x :: xs, h => by
    have := optAll_isSome_of_forall xs (fun y hy => h y (by simp [hy]))
    obtain ⟨r, hr⟩ := Option.isSome_iff_exists.mp this
    simp [optAll, hr]

/-! ### transpose -/

theorem filterMap_getElem? {α β} {f : α → Option β} (l : List α) (h : ∀ x ∈ l, (f x).isSome)
    (i : Nat) : (l.filterMap f)[i]? = l[i]?.bind f := by
  induction l generalizing i with
  | nil => simp
  | cons x xs ih =>
    obtain ⟨y, hy⟩ := Option.isSome_iff_exists.mp (h x (by simp))
    rw [List.filterMap_cons_some hy]
    cases i with
    | zero => simp [hy]
    | succ i => simpa using ih (fun z hz => h z (by simp [hz])) i

theorem length_filterMap_of_isSome {α β} {f : α → Option β} (l : List α)
    (h : ∀ x ∈ l, (f x).isSome) : (l.filterMap f).length = l.length := by
  induction l with
  | nil => simp
  | cons x xs ih =>
    obtain ⟨y, hy⟩ := Option.isSome_iff_exists.mp (h x (by simp))
    rw [List.filterMap_cons_some hy]
    simp [ih (fun z hz => h z (by simp [hz]))]

theorem length_transpose {α} (m : Nat) (rows : List (List α)) : (transpose m rows).length = m := by
  simp [transpose]

/-- entry `(c, r)` of the transposed table is entry `(r, c)` of the original -/
theorem getElem?_transpose {α} {m : Nat} {rows : List (List α)} (hm : ∀ r ∈ rows, r.length = m)
    {c : Nat} (hc : c < m) (r : Nat) :
    ((transpose m rows)[c]?).bind (·[r]?) = (rows[r]?).bind (·[c]?) := by
  have : (transpose m rows)[c]? = some (rows.filterMap (·[c]?)) := by
    simp [transpose, hc]
  rw [this]
  simp only [Option.bind_some]
  apply filterMap_getElem?
  intro x hx
  have := hm x hx
  simp [List.getElem?_eq_getElem (show c < x.length by omega)]

theorem transpose_transpose {α} {n m : Nat} {rows : List (List α)} (hn : rows.length = n)
    (hm : ∀ r ∈ rows, r.length = m) : transpose n (transpose m rows) = rows := by
  apply List.ext_getElem?
  intro r
  by_cases hr : r < n
  · have hT : ∀ x ∈ transpose m rows, x.length = n := by
      intro x hx
      simp only [transpose, List.mem_map, List.mem_range] at hx
      obtain ⟨c, hc, rfl⟩ := hx
      rw [length_filterMap_of_isSome, hn]
      intro y hy
      have := hm y hy
      simp [List.getElem?_eq_getElem (show c < y.length by omega)]
    have h1 : (transpose n (transpose m rows))[r]? = some ((transpose m rows).filterMap (·[r]?)) := by
      simp [transpose, hr]
    rw [h1, List.getElem?_eq_getElem (show r < rows.length by omega)]
    congr 1
    apply List.ext_getElem?
    intro c
    have hrow : rows[r].length = m := hm _ (List.getElem_mem _)
    rw [filterMap_getElem? _ (by
      intro x hx
      have := hT x hx
      simp [List.getElem?_eq_getElem (show r < x.length by omega)])]
    by_cases hc : c < m
    · have := getElem?_transpose hm hc r
      rw [this, List.getElem?_eq_getElem (show r < rows.length by omega)]
      simp
    · have h2 : (transpose m rows)[c]? = none := by
        simp [transpose]; omega
      rw [h2]
      simp
      omega
  · have h1 : (transpose n (transpose m rows))[r]? = none := by
      simp [transpose]; omega
    rw [h1]
    symm
    simp
    omega

/-! ### dedup -/

theorem mem_dedup {α} [DecidableEq α] (l : List α) (a : α) : a ∈ dedup l ↔ a ∈ l := by
  induction l with
  | nil => simp [dedup]
  | cons x xs ih =>
    simp only [dedup, List.mem_cons, List.mem_filter, ih, decide_eq_true_eq]
    by_cases h : a = x <;> simp [h]

theorem nodup_dedup {α} [DecidableEq α] (l : List α) : (dedup l).Nodup := by
  induction l with
  | nil => simp [dedup]
  | cons x xs ih =>
    simp only [dedup, List.nodup_cons, List.mem_filter, decide_eq_true_eq]
    exact ⟨fun h => h.2 rfl, ih.filter _⟩

/-- a duplicate-free list whose members all lie in `r` is no longer than `r` -/
theorem length_le_of_nodup_subset {α} [DecidableEq α] : ∀ (l r : List α), l.Nodup → (∀ a ∈ l, a ∈ r) →
    l.length ≤ r.length
  | [], _, _, _ => by simp
  | a :: l, r, hn, hs => by
    have ha : a ∈ r := hs a (by simp)
    have hn' := List.nodup_cons.mp hn
    have ih := length_le_of_nodup_subset l (r.erase a) hn'.2 (by
      intro b hb
      have hne : b ≠ a := fun h => hn'.1 (h ▸ hb)
      exact (List.mem_erase_of_ne hne).mpr (hs b (by simp [hb])))
    have := List.length_erase_of_mem ha
    have hpos : 0 < r.length := List.length_pos_of_mem ha
    simp only [List.length_cons]
    omega

theorem pairsOfTable_pairRow : ∀ (en : List Pair), pairsOfTable (en.map pairRow) = some en
  | [] => rfl
  | (a, b) :: rest => by
    simp [pairsOfTable, pairRow, pairsOfTable_pairRow rest]

/-! ### normPair -/

theorem normPair_le (p : Pair) : (normPair p).1 ≤ (normPair p).2 := by
  by_cases h : p.1 ≤ p.2
  · simp [normPair, h]
  · simp [normPair, h]; omega

theorem normPair_idem (p : Pair) : normPair (normPair p) = normPair p := by
  have := normPair_le p
  rw [normPair]
  simp [this]

theorem normPair_of_le {p : Pair} (h : p.1 ≤ p.2) : normPair p = p := by
  simp [normPair, h]

theorem normPair_swap (a b : Int) : normPair (a, b) = normPair (b, a) := by
  unfold normPair
  by_cases h1 : a ≤ b <;> by_cases h2 : b ≤ a <;> simp [h1, h2]
  · have : a = b := by omega
    simp [this]
  · omega

/-! ### facePairs -/

theorem length_facePairs (f : List Int) : (facePairs f).length = f.length := by
  cases f with
  | nil => rfl
  | cons a rest => simp [facePairs]

/-- the `c`-th pair of a face is (node `c`, node `c+1` cyclically) -/
theorem getElem?_facePairs (f : List Int) (c : Nat) (hc : c < f.length) :
    (facePairs f)[c]? = some (f[c], f[(c + 1) % f.length]'(Nat.mod_lt _ (by omega))) := by
  cases f with
  | nil => simp at hc
  | cons a rest =>
    simp only [facePairs, List.length_cons] at hc ⊢
    rw [List.getElem?_zip_eq_some]
    constructor
    · exact List.getElem?_eq_getElem (by simpa using hc)
    · by_cases h : c < rest.length
      · rw [List.getElem?_append_left h]
        have : (c + 1) % (rest.length + 1) = c + 1 := Nat.mod_eq_of_lt (by omega)
        simp [this, List.getElem?_eq_getElem h]
      · have hc' : c = rest.length := by omega
        subst hc'
        simp

/-! ### edgeIndex? -/

theorem edgeIndex?_some : ∀ {en : List Pair} {p : Pair} {k : Nat}, edgeIndex? en p = some k →
    ∃ hk : k < en.length, normPair en[k] = normPair p
  | [], _, _, h => by simp [edgeIndex?] at h
  | e :: es, p, k, h => by
    simp only [edgeIndex?] at h
    split at h
    · rename_i k' hk'
      obtain ⟨hk, hn⟩ := edgeIndex?_some hk'
      simp only [Option.some.injEq] at h
      subst h
      exact ⟨by simp; omega, by simpa using hn⟩
    · split at h
      · simp only [Option.some.injEq] at h
        subst h
        exact ⟨by simp, by simpa⟩
      · simp at h

theorem edgeIndex?_isSome : ∀ {en : List Pair} {p : Pair}, (∃ e ∈ en, normPair e = normPair p) →
    (edgeIndex? en p).isSome
  | [], _, h => by simp at h
  | e :: es, p, h => by
    simp only [edgeIndex?]
    cases hes : edgeIndex? es p with
    | some k => simp
    | none =>
      simp only
      obtain ⟨e', he', hn⟩ := h
      rcases List.mem_cons.mp he' with rfl | hmem
      · simp [hn]
      · have := edgeIndex?_isSome ⟨e', hmem, hn⟩
        simp [hes] at this

theorem edgeIndex?_none {en : List Pair} {p : Pair} (h : edgeIndex? en p = none) :
    ∀ e ∈ en, normPair e ≠ normPair p := by
  intro e he hn
  have := edgeIndex?_isSome ⟨e, he, hn⟩
  simp [h] at this

/-- in a table without repeated edges the index is the only row with that node pair -/
theorem edgeIndex?_unique {en : List Pair} (hn : (en.map normPair).Nodup) {p : Pair} {k : Nat}
    (hk : k < en.length) (hp : normPair en[k] = normPair p) : edgeIndex? en p = some k := by
  obtain ⟨k', hk'⟩ := Option.isSome_iff_exists.mp (edgeIndex?_isSome ⟨en[k], List.getElem_mem _, hp⟩)
  obtain ⟨hlt, hn'⟩ := edgeIndex?_some hk'
  have h1 : (en.map normPair)[k]'(by simpa) = (en.map normPair)[k']'(by simpa) := by
    simp [hp, hn']
  have := (List.getElem_inj hn).mp h1
  rw [hk', this]

/-! ### accumulate -/

theorem foldl_modify_getElem? {α} (evs : List (Nat × α)) (st : List (List α)) (i : Nat) :
    (evs.foldl (fun st ev => st.modify ev.1 (· ++ [ev.2])) st)[i]? =
      st[i]?.map (· ++ (evs.filter (fun ev => ev.1 == i)).map (·.2)) := by
  induction evs generalizing st with
  | nil => simp
  | cons ev evs ih =>
    simp only [List.foldl_cons]
    rw [ih, List.getElem?_modify]
    cases hst : st[i]? with
    | none => simp
    | some row =>
      by_cases h : ev.1 = i
      · simp [h]
      · have : (ev.1 == i) = false := by simpa using h
        simp [h, this]

theorem length_foldl_modify {α} (evs : List (Nat × α)) (st : List (List α)) :
    (evs.foldl (fun st ev => st.modify ev.1 (· ++ [ev.2])) st).length = st.length := by
  induction evs generalizing st with
  | nil => rfl
  | cons ev evs ih => simp [ih]

theorem length_accumulate {α} (n : Nat) (evs : List (Nat × α)) : (accumulate n evs).length = n := by
  simp [accumulate, length_foldl_modify]

/-- row `i` of the filled table: the values of the events with key `i`, in order -/
theorem getElem?_accumulate {α} (n : Nat) (evs : List (Nat × α)) (i : Nat) (hi : i < n) :
    (accumulate n evs)[i]? = some ((evs.filter (fun ev => ev.1 == i)).map (·.2)) := by
  simp [accumulate, foldl_modify_getElem?, hi]

end Ems.Mesh
