import EmsModel.Core.GeomBox
import Mathlib.Algebra.Order.Field.Rat
import Mathlib.Tactic.Linarith
/-! Helper lemmas for the CF 1-D geometry box (C06): a gap-free chain of intervals covers its span. -/

namespace Ems

theorem contiguous_cons₂ (c d : Rat × Rat) (r : List (Rat × Rat)) :
    contiguous (c :: d :: r) = true ↔ d.1 = c.2 ∧ contiguous (d :: r) = true := by
  simp [contiguous, List.dropLast]

theorem minL_le {l : List Rat} {lo x : Rat} (h : minL l = some lo) (hx : x ∈ l) : lo ≤ x := by
  induction l generalizing lo with
  | nil => simp at hx
  | cons a as ih =>
    simp only [minL, Option.some.injEq] at h
    cases hm : minL as with
    | none =>
      rw [hm] at h
      have : as = [] := by cases as with | nil => rfl | cons _ _ => simp [minL] at hm
      subst this; simp at hx; subst hx; subst h; exact le_refl _
    | some m =>
      rw [hm] at h
      simp only [ratMin] at h
      rcases List.mem_cons.mp hx with rfl | hx'
      · split at h <;> · subst h; first | exact le_refl _ | linarith
      · have := ih hm hx'
        split at h <;> · subst h; linarith

theorem le_maxL {l : List Rat} {hi x : Rat} (h : maxL l = some hi) (hx : x ∈ l) : x ≤ hi := by
  induction l generalizing hi with
  | nil => simp at hx
  | cons a as ih =>
    simp only [maxL, Option.some.injEq] at h
    cases hm : maxL as with
    | none =>
      rw [hm] at h
      have : as = [] := by cases as with | nil => rfl | cons _ _ => simp [maxL] at hm
      subst this; simp at hx; subst hx; subst h; exact le_refl _
    | some m =>
      rw [hm] at h
      simp only [ratMax] at h
      rcases List.mem_cons.mp hx with rfl | hx'
      · split at h <;> · subst h; first | exact le_refl _ | linarith
      · have := ih hm hx'
        split at h <;> · subst h; linarith

theorem ratMin_le_cases {a b p : Rat} (h : ratMin a b ≤ p) : a ≤ p ∨ b ≤ p := by
  unfold ratMin at h; split at h <;> simp [h]

theorem le_ratMax_cases {a b p : Rat} (h : p ≤ ratMax a b) : p ≤ a ∨ p ≤ b := by
  unfold ratMax at h; split at h <;> simp [h]

theorem minL_cons_some (x : Rat) (xs : List Rat) : ∃ m, minL (x :: xs) = some m := ⟨_, rfl⟩
theorem maxL_cons_some (x : Rat) (xs : List Rat) : ∃ m, maxL (x :: xs) = some m := ⟨_, rfl⟩

theorem boundEnds_cons (c : Rat × Rat) (r : List (Rat × Rat)) :
    boundEnds (c :: r) = c.1 :: c.2 :: boundEnds r := by simp [boundEnds]

/-- one axis: with no gap between neighbouring cells, every coordinate between the smallest and the largest
stored bound lies in some cell -/
theorem span_covered_of_contiguous :
    ∀ (b : List (Rat × Rat)) (lo hi : Rat), contiguous b = true →
      minL (boundEnds b) = some lo → maxL (boundEnds b) = some hi →
      ∀ p, lo ≤ p → p ≤ hi → ∃ c ∈ b, inCell p c
  | [], lo, hi, _, hlo, _, _, _, _ => by simp [boundEnds, minL] at hlo
  | [c], lo, hi, _, hlo, hhi, p, h1, h2 => by
    refine ⟨c, by simp, ?_⟩
    have e : boundEnds [c] = [c.1, c.2] := by simp [boundEnds]
    rw [e] at hlo hhi
    simp only [minL, maxL, Option.some.injEq] at hlo hhi
    subst hlo; subst hhi
    unfold inCell
    rcases ratMin_le_cases h1 with h | h <;> rcases le_ratMax_cases h2 with h' | h'
    · rcases le_total c.1 c.2 with t | t
      · left; exact ⟨h, by linarith⟩
      · right; exact ⟨by linarith, h'⟩
    · left; exact ⟨h, h'⟩
    · right; exact ⟨h, h'⟩
    · rcases le_total c.1 c.2 with t | t
      · left; exact ⟨by linarith, h'⟩
      · right; exact ⟨h, by linarith⟩
  | c :: d :: r, lo, hi, hc, hlo, hhi, p, h1, h2 => by
    obtain ⟨hdc, hc'⟩ := (contiguous_cons₂ c d r).mp hc
    rw [boundEnds_cons] at hlo hhi
    obtain ⟨lo', hlo'⟩ := minL_cons_some d.1 (d.2 :: boundEnds r)
    obtain ⟨hi', hhi'⟩ := maxL_cons_some d.1 (d.2 :: boundEnds r)
    rw [← boundEnds_cons] at hlo' hhi'
    have hd_lo : lo' ≤ d.1 := minL_le hlo' (by rw [boundEnds_cons]; simp)
    have hd_hi : d.1 ≤ hi' := le_maxL hhi' (by rw [boundEnds_cons]; simp)
    simp only [minL, maxL, hlo', hhi', Option.some.injEq] at hlo hhi
    subst hlo; subst hhi
    by_cases hin : lo' ≤ p ∧ p ≤ hi'
    · obtain ⟨c', hc'mem, hc'in⟩ := span_covered_of_contiguous (d :: r) lo' hi' hc' hlo' hhi' p hin.1 hin.2
      exact ⟨c', List.mem_cons_of_mem _ hc'mem, hc'in⟩
    · refine ⟨c, by simp, ?_⟩
      unfold inCell
      rcases not_and_or.mp hin with hn | hn
      · -- p below everything after c: only c.1 can be below p
        have hp : p < lo' := lt_of_not_ge hn
        have h12 : p < c.2 := by rw [← hdc]; linarith
        rcases ratMin_le_cases h1 with h | h
        · left; exact ⟨h, le_of_lt h12⟩
        · rcases ratMin_le_cases h with h | h <;> linarith
      · have hp : hi' < p := lt_of_not_ge hn
        have h12 : c.2 < p := by rw [← hdc]; linarith
        rcases le_ratMax_cases h2 with h | h
        · right; exact ⟨le_of_lt h12, h⟩
        · rcases le_ratMax_cases h with h | h <;> linarith

/-- conversely (no contiguity needed): a coordinate inside a cell is inside the span -/
theorem cell_within_span (b : List (Rat × Rat)) (lo hi : Rat)
    (hlo : minL (boundEnds b) = some lo) (hhi : maxL (boundEnds b) = some hi)
    (p : Rat) (c : Rat × Rat) (hc : c ∈ b) (hp : inCell p c) : lo ≤ p ∧ p ≤ hi := by
  have m1 : c.1 ∈ boundEnds b := by
    simp only [boundEnds, List.mem_flatMap]; exact ⟨c, hc, by simp⟩
  have m2 : c.2 ∈ boundEnds b := by
    simp only [boundEnds, List.mem_flatMap]; exact ⟨c, hc, by simp⟩
  have a1 := minL_le hlo m1
  have a2 := minL_le hlo m2
  have b1 := le_maxL hhi m1
  have b2 := le_maxL hhi m2
  rcases hp with ⟨h, h'⟩ | ⟨h, h'⟩ <;> constructor <;> linarith

end Ems
