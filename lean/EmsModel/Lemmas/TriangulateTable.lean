import EmsModel.Lemmas.Triangulate
/-! Lemmas about the dataset-level glue: cell index per triangle, vertex table
(`dedup`) and the index join (`indexOf?`).  Core Lean reasoning only. -/
namespace Ems.Tri

/-! ### de-duplication and the join -/

theorem mem_dedup : ∀ {l : List Pt} {v : Pt}, v ∈ dedup l ↔ v ∈ l
  | [], v => by simp [dedup]
  | a :: rest, v => by
      simp only [dedup, List.mem_cons, List.mem_filter, decide_eq_true_eq, mem_dedup (l := rest)]
      constructor
      · rintro (h | ⟨h, _⟩)
        · exact Or.inl h
        · exact Or.inr h
      · rintro (h | h)
        · exact Or.inl h
        · by_cases hva : v = a
          · exact Or.inl hva
          · exact Or.inr ⟨h, hva⟩

theorem nodup_dedup : ∀ l : List Pt, (dedup l).Nodup
  | [] => by simp [dedup]
  | a :: rest => by
      simp only [dedup, List.nodup_cons, List.mem_filter, decide_eq_true_eq]
      refine ⟨fun h => h.2 rfl, ?_⟩
      exact (nodup_dedup rest).sublist List.filter_sublist

theorem indexOf?_of_mem : ∀ {l : List Pt} {v : Pt}, v ∈ l →
    ∃ i, indexOf? v l = some i ∧ l[i]? = some v
  | [], v, h => by simp at h
  | a :: rest, v, h => by
      by_cases hav : a = v
      · exact ⟨0, by simp [indexOf?, hav], by simp [hav]⟩
      · have hm : v ∈ rest := by
          rcases List.mem_cons.mp h with h | h
          · exact absurd h.symm hav
          · exact h
        obtain ⟨i, hi, hg⟩ := indexOf?_of_mem hm
        exact ⟨i + 1, by simp [indexOf?, hav, hi], by simpa using hg⟩

/-- `indexOf?` returns the *first* position: nothing before it equals `v`. -/
theorem indexOf?_first : ∀ {l : List Pt} {v : Pt} {i : Nat}, indexOf? v l = some i →
    ∀ j, j < i → l[j]? ≠ some v
  | [], v, i, h => by simp [indexOf?] at h
  | a :: rest, v, i, h => by
      by_cases hav : a = v
      · simp [indexOf?, hav] at h
        subst h
        intro j hj; omega
      · simp only [indexOf?, hav, if_false, Option.map_eq_some_iff] at h
        obtain ⟨i', hi', rfl⟩ := h
        intro j hj
        cases j with
        | zero => simpa using hav
        | succ j => simpa using indexOf?_first hi' j (by omega)

/-! ### coordinates of all cells -/

theorem mem_allCoords : ∀ {cells : List (Option (List Pt))} {v : Pt},
    v ∈ allCoords cells ↔ ∃ p, some p ∈ cells ∧ v ∈ p
  | [], v => by simp [allCoords]
  | none :: rest, v => by
      simp only [allCoords, mem_allCoords (cells := rest), List.mem_cons]
      constructor
      · rintro ⟨p, hp, hv⟩; exact ⟨p, Or.inr hp, hv⟩
      · rintro ⟨p, hp | hp, hv⟩
        · simp at hp
        · exact ⟨p, hp, hv⟩
  | some p0 :: rest, v => by
      simp only [allCoords, List.mem_append, mem_allCoords (cells := rest), List.mem_cons]
      constructor
      · rintro (h | ⟨p, hp, hv⟩)
        · exact ⟨p0, Or.inl rfl, h⟩
        · exact ⟨p, Or.inr hp, hv⟩
      · rintro ⟨p, hp | hp, hv⟩
        · simp only [Option.some.injEq] at hp; subst hp; exact Or.inl hv
        · exact Or.inr ⟨p, hp, hv⟩

/-! ### cell index per triangle -/

theorem filter_tag_same (k : Nat) (ts : List Tri) :
    ((ts.map (fun t => (k, t))).filter (fun kt => kt.1 == k)).map (·.2) = ts := by
  induction ts with
  | nil => rfl
  | cons t ts ih => simp only [List.map_cons, List.filter_cons, beq_self_eq_true, if_true, ih]

theorem filter_tag_other {k j : Nat} (h : j ≠ k) (ts : List Tri) :
    (ts.map (fun t => (k, t))).filter (fun kt => kt.1 == j) = [] := by
  induction ts with
  | nil => rfl
  | cons t ts ih =>
    have : (k == j) = false := by simp; omega
    simp only [List.map_cons, List.filter_cons, this, ih]
    simp

theorem filter_none_of_forall {l : List (Nat × Tri)} {j : Nat} (h : ∀ kt ∈ l, kt.1 ≠ j) :
    l.filter (fun kt => kt.1 == j) = [] := by
  rw [List.filter_eq_nil_iff]
  intro kt hkt
  have := h kt hkt
  simp [this]

/-- Main invariant of `cellTriangles`, numbering from `k`. -/
theorem cellTriangles_spec (isConvex : List Pt → Bool) (isEar : List Pt → Nat → Bool) :
    ∀ (cells : List (Option (List Pt))) (k : Nat) (out : List (Nat × Tri)),
    cellTriangles isConvex isEar k cells = .ok out →
    (∀ kt ∈ out, k ≤ kt.1 ∧ kt.1 < k + cells.length) ∧
    (∀ j, j < cells.length →
      match cells[j]? with
      | some (some p) => ∃ ts, triangulateCell isConvex isEar p = .ok ts ∧
          (out.filter (fun kt => kt.1 == k + j)).map (·.2) = ts
      | _ => out.filter (fun kt => kt.1 == k + j) = [])
  | [], k, out, h => by
      simp only [cellTriangles, Except.ok.injEq] at h
      subst h
      exact ⟨by simp, by intro j hj; simp at hj⟩
  | none :: rest, k, out, h => by
      simp only [cellTriangles] at h
      obtain ⟨hr, hc⟩ := cellTriangles_spec isConvex isEar rest (k + 1) out h
      refine ⟨fun kt hkt => ?_, fun j hj => ?_⟩
      · have := hr kt hkt
        simp only [List.length_cons]; omega
      · cases j with
        | zero =>
          simp only [List.getElem?_cons_zero]
          exact filter_none_of_forall (fun kt hkt => by have := hr kt hkt; omega)
        | succ j =>
          have := hc j (by simp only [List.length_cons] at hj; omega)
          simp only [List.getElem?_cons_succ]
          have e : k + (j + 1) = k + 1 + j := by omega
          rw [e]; exact this
  | some p :: rest, k, out, h => by
      simp only [cellTriangles] at h
      cases hcell : triangulateCell isConvex isEar p with
      | error e => simp [hcell] at h
      | ok ts =>
        cases hrest : cellTriangles isConvex isEar (k + 1) rest with
        | error e => simp [hcell, hrest] at h
        | ok more =>
          simp only [hcell, hrest, Except.ok.injEq] at h
          subst h
          obtain ⟨hr, hc⟩ := cellTriangles_spec isConvex isEar rest (k + 1) more hrest
          refine ⟨fun kt hkt => ?_, fun j hj => ?_⟩
          · rcases List.mem_append.mp hkt with hkt | hkt
            · obtain ⟨t, _, rfl⟩ := List.mem_map.mp hkt
              simp only [List.length_cons]; omega
            · have := hr kt hkt
              simp only [List.length_cons]; omega
          · cases j with
            | zero =>
              simp only [List.getElem?_cons_zero, Nat.add_zero]
              refine ⟨ts, hcell, ?_⟩
              rw [List.filter_append, List.map_append, filter_tag_same,
                filter_none_of_forall (fun kt hkt => by have := hr kt hkt; omega)]
              simp
            | succ j =>
              have := hc j (by simp only [List.length_cons] at hj; omega)
              simp only [List.getElem?_cons_succ]
              have e : k + (j + 1) = k + 1 + j := by omega
              rw [e, List.filter_append, filter_tag_other (by omega), List.nil_append]
              exact this

theorem triangulateCell_mem {isConvex : List Pt → Bool} {isEar : List Pt → Nat → Bool}
    {p : List Pt} {ts : List Tri} (h : triangulateCell isConvex isEar p = .ok ts) :
    ∀ t ∈ ts, t.a ∈ p ∧ t.b ∈ p ∧ t.c ∈ p := by
  unfold triangulateCell at h
  split at h
  · simp only [Except.ok.injEq] at h
    subst h
    exact fun t ht => mem_fan ht
  · exact (earClip_ok isEar _ p ts h).2.2

theorem triangulateCell_length {isConvex : List Pt → Bool} {isEar : List Pt → Nat → Bool}
    {p : List Pt} {ts : List Tri} (h : triangulateCell isConvex isEar p = .ok ts) :
    ts.length = p.length - 2 := by
  unfold triangulateCell at h
  split at h
  · simp only [Except.ok.injEq] at h
    subst h
    exact fan_length p
  · have := (earClip_ok isEar _ p ts h).1
    omega

/-- The number of rows written equals the number pre-allocated. -/
theorem cellTriangles_length (isConvex : List Pt → Bool) (isEar : List Pt → Nat → Bool) :
    ∀ (cells : List (Option (List Pt))) (k : Nat) (out : List (Nat × Tri)),
    cellTriangles isConvex isEar k cells = .ok out → out.length = totalTriangles cells
  | [], k, out, h => by
      simp only [cellTriangles, Except.ok.injEq] at h
      subst h; rfl
  | none :: rest, k, out, h => by
      simp only [cellTriangles] at h
      simpa [totalTriangles] using cellTriangles_length isConvex isEar rest (k + 1) out h
  | some p :: rest, k, out, h => by
      simp only [cellTriangles] at h
      cases hcell : triangulateCell isConvex isEar p with
      | error e => simp [hcell] at h
      | ok ts =>
        cases hrest : cellTriangles isConvex isEar (k + 1) rest with
        | error e => simp [hcell, hrest] at h
        | ok more =>
          simp only [hcell, hrest, Except.ok.injEq] at h
          subst h
          simp only [List.length_append, List.length_map, totalTriangles,
            triangulateCell_length hcell, cellTriangles_length isConvex isEar rest (k + 1) more hrest]

/-- Every triangle of `cellTriangles` has its three vertices among the coordinates of
the cells (in fact of its own cell). -/
theorem cellTriangles_mem (isConvex : List Pt → Bool) (isEar : List Pt → Nat → Bool) :
    ∀ (cells : List (Option (List Pt))) (k : Nat) (out : List (Nat × Tri)),
    cellTriangles isConvex isEar k cells = .ok out →
    ∀ kt ∈ out, ∃ p, cells[kt.1 - k]? = some (some p) ∧ k ≤ kt.1 ∧
      kt.2.a ∈ p ∧ kt.2.b ∈ p ∧ kt.2.c ∈ p
  | [], k, out, h => by
      simp only [cellTriangles, Except.ok.injEq] at h
      subst h
      simp
  | none :: rest, k, out, h => by
      simp only [cellTriangles] at h
      intro kt hkt
      obtain ⟨p, hp, hk, hm⟩ := cellTriangles_mem isConvex isEar rest (k + 1) out h kt hkt
      refine ⟨p, ?_, by omega, hm⟩
      have e : kt.1 - k = (kt.1 - (k + 1)) + 1 := by omega
      rw [e, List.getElem?_cons_succ]; exact hp
  | some p0 :: rest, k, out, h => by
      simp only [cellTriangles] at h
      cases hcell : triangulateCell isConvex isEar p0 with
      | error e => simp [hcell] at h
      | ok ts =>
        cases hrest : cellTriangles isConvex isEar (k + 1) rest with
        | error e => simp [hcell, hrest] at h
        | ok more =>
          simp only [hcell, hrest, Except.ok.injEq] at h
          subst h
          intro kt hkt
          rcases List.mem_append.mp hkt with hkt | hkt
          · obtain ⟨t, ht, rfl⟩ := List.mem_map.mp hkt
            exact ⟨p0, by simp, Nat.le_refl _, triangulateCell_mem hcell t ht⟩
          · obtain ⟨p, hp, hk, hm⟩ := cellTriangles_mem isConvex isEar rest (k + 1) more hrest kt hkt
            refine ⟨p, ?_, by omega, hm⟩
            have e : kt.1 - k = (kt.1 - (k + 1)) + 1 := by omega
            rw [e, List.getElem?_cons_succ]; exact hp

end Ems.Tri
