import EmsModel.Lemmas.NpPipelines
import EmsModel.Core.TriFanSrc
import EmsModel.Gen.TriFanSrc
/-!
Lemmas/TriFanSrc.lean — the term GENERATED FROM THE SOURCE of `_triangulate_polygons_by_length`
(`Gen.triFanTriangles`) computes the fan of `Core/Triangulate.lean`.

As in `Lemmas/NpPipelines.lean` the proofs do not look at the shape of the generated term: `np_simp` infers its shape
with symbolic sizes and composes its index maps; what is proved by hand are the facts about the INPUT (where vertex `k`
of polygon `p` sits in the coordinate array) and about the two reshapes (`(n*L, 2) → (n, L, 2)` splits the leading
axis, `(n, 2) → (n, 1, 2)` inserts an axis of length 1).
Core Lean only.
-/
namespace Ems
open NpArr

/-! ### the reshapes of the pipeline -/

/-- `x.reshape((n, L, 2))` of an `(n * L, 2)` array: the sizes agree -/
theorem triFan_resolve_split (env : NpEnv) (n L : Nat) (a b : String)
    (ha : List.lookup a env.sizes = some n) (hb : List.lookup b env.sizes = some L) :
    resolveDims env (n * L * 2) [.sym a, .sym b, .lit 2] = some [n, L, 2] := by
  simp [resolveDims, DimTerm.val, allSomeL, size, ha, hb, Nat.mul_assoc]

/-- `x.reshape((-1, 1, 2))` of an `(n, 2)` array -/
theorem triFan_resolve_unit (env : NpEnv) (n : Nat) :
    resolveDims env (n * 2) [.infer, .lit 1, .lit 2] = some [n, 1, 2] := by
  simp [resolveDims, DimTerm.val, allSomeL, size]

theorem triFan_size3 (a b c : Nat) : size [a, b, c] = a * b * c := by simp [size, Nat.mul_assoc]

/-- splitting the leading axis, `(n * L, 2) → (n, L, 2)`: element `(p, k, c)` is row `p * L + k` -/
theorem triFan_ravel_split (n L p k c : Nat) (hp : p < n) (hk : k < L) (hc : c < 2) :
    (ravel [n, L, 2] [p, k, c]).bind (unravel [n * L, 2]) = some [p * L + k, c] := by
  have h1 : ravel [n, L, 2] [p, k, c] = some (p * (L * 2) + (k * 2 + c)) := by
    simp [ravel, size, hp, hk, hc]
  have hlt : p * L + k < n * L := by
    calc p * L + k < p * L + L := by omega
      _ = (p + 1) * L := by rw [Nat.add_mul, Nat.one_mul]
      _ ≤ n * L := Nat.mul_le_mul_right _ hp
  have h2 : ravel [n * L, 2] [p * L + k, c] = some (p * (L * 2) + (k * 2 + c)) := by
    simp only [ravel, hlt, hc, if_true, Option.map_some, size, Nat.mul_one, Nat.add_zero,
      Option.some.injEq]
    rw [Nat.add_mul, Nat.mul_assoc]
    omega
  rw [h1, Option.bind_some]
  exact unravel_of_ravel _ _ _ h2

/-- inserting an axis of length 1, `(n, 2) → (n, 1, 2)` -/
theorem triFan_ravel_unit (n p c : Nat) (hp : p < n) (hc : c < 2) :
    (ravel [n, 1, 2] [p, 0, c]).bind (unravel [n, 2]) = some [p, c] := by
  have h1 : ravel [n, 1, 2] [p, 0, c] = some (p * 2 + c) := by simp [ravel, size, hp, hc]
  have h2 : ravel [n, 2] [p, c] = some (p * 2 + c) := by simp [ravel, size, hp, hc]
  rw [h1, Option.bind_some]
  exact unravel_of_ravel _ _ _ h2

/-! ### the input array -/

theorem triFanCloseRing_length (q : List Tri.Pt) (vc : Nat) (h : q.length = vc) (h0 : 0 < vc) :
    (triFanCloseRing q).length = vc + 1 := by
  cases q with
  | nil => simp at h; omega
  | cons a r => simp [triFanCloseRing] at h ⊢; omega

theorem triFanCoords_length (polys : List (List Tri.Pt)) (vc : Nat) (hlen : ∀ q ∈ polys, q.length = vc) (h0 : 0 < vc) :
    (triFanCoords polys).length = polys.length * (vc + 1) := by
  simp only [triFanCoords, List.length_map]
  exact flatMap_length_uniform triFanCloseRing (vc + 1) polys fun q hq => triFanCloseRing_length q vc (hlen q hq) h0

/-- row `p * (vc + 1) + k` of the coordinate array is vertex `k` of polygon `p` (`k < vc`: not the closing coordinate) -/
theorem triFanCoords_get (polys : List (List Tri.Pt)) (vc : Nat) (hlen : ∀ q ∈ polys, q.length = vc) (h0 : 0 < vc)
    (p k : Nat) (hp : p < polys.length) (hk : k < vc) :
    (triFanCoords polys)[p * (vc + 1) + k]? = ((polys[p]?).bind (·[k]?)).map fun q => (q.x, q.y) := by
  simp only [triFanCoords, List.getElem?_map]
  rw [flatMap_getElem_uniform triFanCloseRing (vc + 1) polys
    (fun q hq => triFanCloseRing_length q vc (hlen q hq) h0) p k hp (by omega)]
  have hq : polys[p].length = vc := hlen _ (List.getElem_mem hp)
  rw [triFanCloseRing, List.getElem?_append_left (by omega)]
  simp [List.getElem?_eq_getElem hp]

theorem triFanEnv_wf (coords : List (Rat × Rat)) (n L : Nat) : (triFanEnv coords n L).WF := by
  intro p hp
  simp only [triFanEnv, List.mem_cons, List.not_mem_nil, or_false] at hp
  subst hp
  exact pairsArr_wf _

/-! ### the generated term -/

/-- the value of the generated term has shape `(n, vc - 2, 3, 2)` -/
theorem triFan_shape (coords : List (Rat × Rat)) (n vc : Nat) (hvc : 3 ≤ vc) (hc : coords.length = n * (vc + 1)) :
    shapeOf (triFanEnv coords n (vc + 1)) Gen.triFanTriangles = some [n, vc - 2, 3, 2] := by
  have h0 : 0 < vc := by omega
  have h1 : min 1 vc = 1 := by omega
  have h2 : min 2 vc = 2 := by omega
  have h3 : vc - 1 - 1 = vc - 2 := by omega
  np_simp [Gen.triFanTriangles, triFanEnv, pairsArr_shape, hc, triFan_resolve_split, triFan_resolve_unit, triFan_size3,
    h0, h1, h2, h3]

theorem triFan_getOf (polys : List (List Tri.Pt)) (vc : Nat) (hvc : 3 ≤ vc) (hlen : ∀ q ∈ polys, q.length = vc)
    (p t c d : Nat) (hp : p < polys.length) (ht : t < vc - 2) (hc : c < 3) (hd : d < 2) :
    getOf (triFanEnv (triFanCoords polys) polys.length (vc + 1)) Gen.triFanTriangles [p, t, c, d]
      = ((polys[p]?).bind (·[triFanVertex c t]?)).map fun q => if d = 0 then q.x else q.y := by
  have h0 : 0 < vc := by omega
  have h1 : min 1 vc = 1 := by omega
  have h2 : min 2 vc = 2 := by omega
  have h3 : vc - 1 - 1 = vc - 2 := by omega
  have hcl := triFanCoords_length polys vc hlen h0
  have hpm : p % polys.length = p := Nat.mod_eq_of_lt hp
  have hu : ∀ e, e < 2 → (ravel [polys.length, 1, 2] [p, 0, e]).bind (unravel [polys.length, 2]) = some [p, e] :=
    fun e he => triFan_ravel_unit polys.length p e hp he
  have hs : ∀ k e, k < vc + 1 → e < 2 → (ravel [polys.length, vc + 1, 2] [p, k, e]).bind
      (unravel [polys.length * (vc + 1), 2]) = some [p * (vc + 1) + k, e] :=
    fun k e hk he => triFan_ravel_split polys.length (vc + 1) p k e hp hk he
  have hg : ∀ k, k < vc → (triFanCoords polys)[p * (vc + 1) + k]? = ((polys[p]?).bind (·[k]?)).map fun q => (q.x, q.y) :=
    fun k hk => triFanCoords_get polys vc hlen h0 p k hp hk
  have fin0 : ∀ k, k < vc → Option.map (fun x => x.fst) (triFanCoords polys)[p * (vc + 1) + k]?
      = polys[p]?.bind ((Option.map fun q => q.x) ∘ fun x => x[k]?) := by
    intro k hk
    rw [hg k hk]
    simp only [List.getElem?_eq_getElem hp, Option.bind_some, Function.comp]
    cases polys[p][k]? <;> simp
  have fin1 : ∀ k, k < vc → Option.map (fun x => x.snd) (triFanCoords polys)[p * (vc + 1) + k]?
      = polys[p]?.bind ((Option.map fun q => q.y) ∘ fun x => x[k]?) := by
    intro k hk
    rw [hg k hk]
    simp only [List.getElem?_eq_getElem hp, Option.bind_some, Function.comp]
    cases polys[p][k]? <;> simp
  rcases (by omega : d = 0 ∨ d = 1) with rfl | rfl <;>
  rcases (by omega : c = 0 ∨ c = 1 ∨ c = 2) with rfl | rfl | rfl
  · np_simp [Gen.triFanTriangles, triFanEnv, pairsArr_shape, hcl, triFan_resolve_split, triFan_resolve_unit, triFan_size3,
      h0, h1, h2, h3, hpm, Nat.mod_one, hu 0 (by omega), hs 0 0 (by omega) (by omega), pairsArr_get0, triFanVertex]
    simpa using fin0 0 h0
  · np_simp [Gen.triFanTriangles, triFanEnv, pairsArr_shape, hcl, triFan_resolve_split, triFan_resolve_unit, triFan_size3,
      h0, h1, h2, h3, hpm, Nat.mod_one, hu 0 (by omega), hs (t + 1) 0 (by omega) (by omega), hs (1 + t) 0 (by omega) (by omega), pairsArr_get0, triFanVertex]
    first
      | exact fin0 (t + 1) (by omega)
      | (rw [Nat.add_comm 1 t]; exact fin0 (t + 1) (by omega))
  · np_simp [Gen.triFanTriangles, triFanEnv, pairsArr_shape, hcl, triFan_resolve_split, triFan_resolve_unit, triFan_size3,
      h0, h1, h2, h3, hpm, Nat.mod_one, hu 0 (by omega), hs (t + 2) 0 (by omega) (by omega), hs (2 + t) 0 (by omega) (by omega), pairsArr_get0, triFanVertex]
    first
      | exact fin0 (t + 2) (by omega)
      | (rw [Nat.add_comm 2 t]; exact fin0 (t + 2) (by omega))
  · np_simp [Gen.triFanTriangles, triFanEnv, pairsArr_shape, hcl, triFan_resolve_split, triFan_resolve_unit, triFan_size3,
      h0, h1, h2, h3, hpm, Nat.mod_one, hu 1 (by omega), hs 0 1 (by omega) (by omega), pairsArr_get1, triFanVertex]
    simpa using fin1 0 h0
  · np_simp [Gen.triFanTriangles, triFanEnv, pairsArr_shape, hcl, triFan_resolve_split, triFan_resolve_unit, triFan_size3,
      h0, h1, h2, h3, hpm, Nat.mod_one, hu 1 (by omega), hs (t + 1) 1 (by omega) (by omega), hs (1 + t) 1 (by omega) (by omega), pairsArr_get1, triFanVertex]
    first
      | exact fin1 (t + 1) (by omega)
      | (rw [Nat.add_comm 1 t]; exact fin1 (t + 1) (by omega))
  · np_simp [Gen.triFanTriangles, triFanEnv, pairsArr_shape, hcl, triFan_resolve_split, triFan_resolve_unit, triFan_size3,
      h0, h1, h2, h3, hpm, Nat.mod_one, hu 1 (by omega), hs (t + 2) 1 (by omega) (by omega), hs (2 + t) 1 (by omega) (by omega), pairsArr_get1, triFanVertex]
    first
      | exact fin1 (t + 2) (by omega)
      | (rw [Nat.add_comm 2 t]; exact fin1 (t + 2) (by omega))

/-- **entry `[p, t, c, :]` of the value of the generated term** is vertex `0`, `t + 1`, `t + 2` (`c = 0, 1, 2`) of polygon `p` -/
theorem triFan_entry (polys : List (List Tri.Pt)) (vc : Nat) (hvc : 3 ≤ vc) (hlen : ∀ q ∈ polys, q.length = vc) :
    ∃ a, eval (triFanEnv (triFanCoords polys) polys.length (vc + 1)) Gen.triFanTriangles = some a ∧
      a.shape = [polys.length, vc - 2, 3, 2] ∧ a.WF ∧
      ∀ p t c, p < polys.length → t < vc - 2 → c < 3 →
        triFanPt a p t c = (polys[p]?).bind (·[triFanVertex c t]?) := by
  have h0 : 0 < vc := by omega
  have hs := triFan_shape (triFanCoords polys) polys.length vc hvc (triFanCoords_length polys vc hlen h0)
  refine ⟨_, eval_sound _ (triFanEnv_wf _ _ _) _ _ hs, rfl, tabulate_wf _ _, ?_⟩
  intro p t c hp ht hc
  have hv : triFanVertex c t < vc := by
    rcases (by omega : c = 0 ∨ c = 1 ∨ c = 2) with rfl | rfl | rfl <;> simp only [triFanVertex] <;> omega
  have hq : polys[p].length = vc := hlen _ (List.getElem_mem hp)
  simp only [triFanPt]
  rw [get_tabulate _ _ _ (by simp [InRange, hp, ht, hc]), get_tabulate _ _ _ (by simp [InRange, hp, ht, hc]),
    triFan_getOf polys vc hvc hlen p t c 0 hp ht hc (by omega),
    triFan_getOf polys vc hvc hlen p t c 1 hp ht hc (by omega)]
  simp [List.getElem?_eq_getElem hp, List.getElem?_eq_getElem (by omega : triFanVertex c t < polys[p].length)]

/-! ### the hand model's fan, triangle by triangle -/

theorem triFan_fanFrom_getElem? (v0 : Tri.Pt) : ∀ (l : List Tri.Pt) (t : Nat) (h : t + 1 < l.length),
    (Tri.fanFrom v0 l)[t]? = some ⟨v0, l[t], l[t + 1]⟩
  | [], t, h => by simp at h
  | [_], t, h => by simp at h
  | a :: b :: rest, 0, _ => by simp [Tri.fanFrom]
  | a :: b :: rest, t + 1, h => by
    have ih := triFan_fanFrom_getElem? v0 (b :: rest) t (by simpa using h)
    simpa [Tri.fanFrom] using ih

/-- triangle `t` of the fan of `q` is `(q[0], q[t + 1], q[t + 2])` -/
theorem triFan_fan_getElem? (q : List Tri.Pt) (t : Nat) (h : t + 2 < q.length) :
    (Tri.fan q)[t]? = some ⟨q[0], q[t + 1], q[t + 2]⟩ := by
  cases q with
  | nil => simp at h
  | cons v0 rest =>
    have := triFan_fanFrom_getElem? v0 rest t (by simp at h; omega)
    simpa [Tri.fan] using this

theorem triFan_fanFrom_length (v0 : Tri.Pt) : ∀ l : List Tri.Pt, (Tri.fanFrom v0 l).length = l.length - 1
  | [] => rfl
  | [_] => rfl
  | a :: b :: rest => by
    have ih := triFan_fanFrom_length v0 (b :: rest)
    simp [Tri.fanFrom, ih]

theorem triFan_fan_length (q : List Tri.Pt) : (Tri.fan q).length = q.length - 2 := by
  cases q with
  | nil => rfl
  | cons v0 rest => simp [Tri.fan, triFan_fanFrom_length]

theorem triFanRead_of_shape (a : NpArr) (n m : Nat) (h : a.shape = [n, m, 3, 2]) :
    triFanRead a = allSomeL ((List.range n).map fun p => allSomeL ((List.range m).map fun t => triFanTri a p t)) := by
  simp [triFanRead, h]

/-- an `(n, m, 3, 2)` array whose triangles `[p, t]` are the fans' triangles reads as the fans -/
theorem triFanRead_eq_fans (a : NpArr) (polys : List (List Tri.Pt)) (vc : Nat) (hvc : 3 ≤ vc)
    (hlen : ∀ q ∈ polys, q.length = vc) (hs : a.shape = [polys.length, vc - 2, 3, 2])
    (hpt : ∀ p t c, p < polys.length → t < vc - 2 → c < 3 → triFanPt a p t c = (polys[p]?).bind (·[triFanVertex c t]?)) :
    triFanRead a = some (polys.map Tri.fan) := by
  rw [triFanRead_of_shape a _ _ hs]
  apply (allSomeL_eq_some _ _).mpr
  apply List.ext_getElem?
  intro p
  by_cases hp : p < polys.length
  · have hq : polys[p].length = vc := hlen _ (List.getElem_mem hp)
    simp only [List.getElem?_map, List.getElem?_range hp, Option.map_some, List.getElem?_eq_getElem hp,
      Option.some.injEq]
    apply (allSomeL_eq_some _ _).mpr
    apply List.ext_getElem?
    intro t
    by_cases ht : t < vc - 2
    · simp only [List.getElem?_map, List.getElem?_range ht, Option.map_some]
      rw [triFan_fan_getElem? polys[p] t (by omega)]
      simp only [triFanTri, hpt p t 0 hp ht (by omega), hpt p t 1 hp ht (by omega), hpt p t 2 hp ht (by omega),
        triFanVertex, List.getElem?_eq_getElem hp, Option.bind_some,
        List.getElem?_eq_getElem (by omega : 0 < polys[p].length),
        List.getElem?_eq_getElem (by omega : t + 1 < polys[p].length),
        List.getElem?_eq_getElem (by omega : t + 2 < polys[p].length), Option.map_some]
    · have hl : (Tri.fan polys[p]).length = vc - 2 := by rw [triFan_fan_length, hq]
      simp [ht, hl]
  · simp [hp]

/-- **`_triangulate_polygons_by_length` as the source has it** computes, for every polygon of the batch, the fan of
`Core/Triangulate.lean` -/
theorem triFan_pipeline (polys : List (List Tri.Pt)) (vc : Nat) (hvc : 3 ≤ vc) (hlen : ∀ q ∈ polys, q.length = vc) :
    (eval (triFanEnv (triFanCoords polys) polys.length (vc + 1)) Gen.triFanTriangles).bind triFanRead
      = some (polys.map Tri.fan) := by
  obtain ⟨a, ha, hs, _, hpt⟩ := triFan_entry polys vc hvc hlen
  rw [ha, Option.bind_some]
  exact triFanRead_eq_fans a polys vc hvc hlen hs hpt

end Ems
