import EmsModel.Core.Triangulate
import Mathlib.Tactic.Ring
import Mathlib.Tactic.Linarith
/-! Lemmas about the fan and the ear-clipping model: counts, signed areas, vertex
membership, fuel.  Everything is an algebraic identity or an induction over the list. -/
namespace Ems.Tri

theorem cross_eq_det (o a b : Pt) : cross o a b = det a b + det o a + det b o := by
  simp only [cross, det]; ring

theorem det_swap (a b : Pt) : det a b = - det b a := by simp only [det]; ring

theorem det_self (a : Pt) : det a a = 0 := by simp only [det]; ring

theorem cross_swap (o a b : Pt) : cross o a b = - cross o b a := by simp only [cross]; ring

theorem cross_self_right (o a : Pt) : cross o a a = 0 := by simp only [cross]; ring

theorem cross_self_left (o a : Pt) : cross o o a = 0 := by simp only [cross]; ring

theorem cross_self_mid (o a : Pt) : cross o a o = 0 := by simp only [cross]; ring

/-! ### fan -/

theorem fanFrom_length (v0 : Pt) : ∀ l : List Pt, (fanFrom v0 l).length = l.length - 1
  | [] => rfl
  | [_] => rfl
  | _ :: b :: rest => by
      simp only [fanFrom, List.length_cons, fanFrom_length v0 (b :: rest)]
      omega

theorem fan_length (p : List Pt) : (fan p).length = p.length - 2 := by
  cases p with
  | nil => rfl
  | cons v0 rest => simp only [fan, fanFrom_length, List.length_cons]; omega

theorem sumArea2_fanFrom (v0 : Pt) : ∀ (a : Pt) (rest : List Pt),
    sumArea2 (fanFrom v0 (a :: rest)) = pathSum (a :: rest ++ [v0]) + det v0 a
  | a, [] => by
      simp only [fanFrom, sumArea2, List.cons_append, List.nil_append, pathSum]
      rw [det_swap a v0]; ring
  | a, b :: rest => by
      have ih := sumArea2_fanFrom v0 b rest
      simp only [fanFrom, sumArea2, Tri.area2, List.cons_append, pathSum] at ih ⊢
      rw [ih, cross_eq_det, det_swap b v0]; ring

theorem sumArea2_fan (p : List Pt) : sumArea2 (fan p) = shoelace2 p := by
  cases p with
  | nil => simp [fan, sumArea2, shoelace2, pathSum]
  | cons v0 rest =>
    cases rest with
    | nil => simp [fan, fanFrom, sumArea2, shoelace2, pathSum, det_self]
    | cons a rest =>
      simp only [fan, shoelace2, List.take_succ_cons, List.take_zero, List.cons_append, pathSum]
      rw [sumArea2_fanFrom]
      simp only [List.cons_append]
      ring

theorem mem_fanFrom {v0 : Pt} : ∀ {l : List Pt} {t : Tri}, t ∈ fanFrom v0 l →
    t.a = v0 ∧ t.b ∈ l ∧ t.c ∈ l
  | [], t, h => by simp [fanFrom] at h
  | [_], t, h => by simp [fanFrom] at h
  | a :: b :: rest, t, h => by
      simp only [fanFrom, List.mem_cons] at h
      rcases h with rfl | h
      · simp
      · have := mem_fanFrom (l := b :: rest) h
        refine ⟨this.1, List.mem_cons_of_mem _ this.2.1, List.mem_cons_of_mem _ this.2.2⟩

theorem mem_fan {p : List Pt} {t : Tri} (h : t ∈ fan p) : t.a ∈ p ∧ t.b ∈ p ∧ t.c ∈ p := by
  cases p with
  | nil => simp [fan] at h
  | cons v0 rest =>
    have := mem_fanFrom (v0 := v0) (l := rest) h
    exact ⟨by simp [this.1], List.mem_cons_of_mem _ this.2.1, List.mem_cons_of_mem _ this.2.2⟩

/-- In a list whose elements are pairwise related (earlier to later), the second and
third vertex of every fan triangle are related. -/
theorem fanFrom_rel {v0 : Pt} {R : Pt → Pt → Prop} : ∀ {l : List Pt}, l.Pairwise R →
    ∀ {t : Tri}, t ∈ fanFrom v0 l → R t.b t.c
  | [], _, t, h => by simp [fanFrom] at h
  | [_], _, t, h => by simp [fanFrom] at h
  | a :: b :: rest, hp, t, h => by
      simp only [fanFrom, List.mem_cons] at h
      rcases h with rfl | h
      · exact (List.pairwise_cons.mp hp).1 b (by simp)
      · exact fanFrom_rel (List.pairwise_cons.mp hp).2 h

/-! ### clipping one ear -/

theorem clipAt_props : ∀ (p : List Pt) (i : Nat) (t : Tri) (r : List Pt),
    clipAt p i = some (t, r) →
    (∀ z, pathSum (p ++ z) = t.area2 + pathSum (r ++ z)) ∧ p.head? = r.head? ∧
      r.length + 1 = p.length ∧ 2 ≤ r.length ∧
      (t.a ∈ p ∧ t.b ∈ p ∧ t.c ∈ p) ∧ (∀ v ∈ r, v ∈ p)
  | [], i, t, r, h => by cases i <;> simp [clipAt] at h
  | [_], 0, t, r, h => by simp [clipAt] at h
  | [_, _], 0, t, r, h => by simp [clipAt] at h
  | a :: b :: c :: rest, 0, t, r, h => by
      simp only [clipAt, Option.some.injEq, Prod.mk.injEq] at h
      obtain ⟨rfl, rfl⟩ := h
      refine ⟨fun z => ?_, rfl, by simp, by simp, by simp, ?_⟩
      · simp only [List.cons_append, pathSum, Tri.area2]
        rw [cross_eq_det, det_swap c a]; ring
      · intro v hv
        simp only [List.mem_cons] at hv ⊢
        rcases hv with h | h | h
        · exact Or.inl h
        · exact Or.inr (Or.inr (Or.inl h))
        · exact Or.inr (Or.inr (Or.inr h))
  | a :: rest, i + 1, t, r, h => by
      cases hc : clipAt rest i with
      | none => simp [clipAt, hc] at h
      | some tr =>
        obtain ⟨t', r'⟩ := tr
        simp only [clipAt, hc, Option.map_some, Option.some.injEq, Prod.mk.injEq] at h
        obtain ⟨rfl, rfl⟩ := h
        obtain ⟨hps, hhd, hlen, h2, hmem, hsub⟩ := clipAt_props rest i t' r' hc
        match rest, r', hhd, hlen, h2, hps, hmem, hsub with
        | x :: xs, y :: ys, hhd, hlen, h2, hps, hmem, hsub =>
          simp only [List.head?_cons, Option.some.injEq] at hhd
          subst hhd
          refine ⟨fun z => ?_, rfl, by simp only [List.length_cons] at hlen ⊢; omega,
            by simp only [List.length_cons] at h2 ⊢; omega,
            ⟨List.mem_cons_of_mem _ hmem.1, List.mem_cons_of_mem _ hmem.2.1,
              List.mem_cons_of_mem _ hmem.2.2⟩, ?_⟩
          · have := hps z
            simp only [List.cons_append, pathSum] at this ⊢
            rw [this]; ring
          · intro v hv
            rcases List.mem_cons.mp hv with h | h
            · exact h ▸ List.mem_cons_self
            · exact List.mem_cons_of_mem _ (hsub v h)
        | [], _, _, hlen, h2, _, _, _ => simp at hlen
        | _ :: _, [], _, _, h2, _, _, _ => simp at h2

theorem take_one_eq_of_head? {α} : ∀ {p r : List α}, p.head? = r.head? → p ≠ [] →
    p.take 1 = r.take 1
  | [], _, _, h => absurd rfl h
  | _ :: _, [], h, _ => by simp at h
  | a :: _, b :: _, h, _ => by simp at h; simp [h]

/-- Clipping an ear splits the doubled shoelace area exactly. -/
theorem clipAt_shoelace {p : List Pt} {i : Nat} {t : Tri} {r : List Pt}
    (h : clipAt p i = some (t, r)) : shoelace2 p = t.area2 + shoelace2 r := by
  obtain ⟨hps, hhd, hlen, _, _, _⟩ := clipAt_props p i t r h
  have hne : p ≠ [] := by intro h0; subst h0; simp at hlen
  simp only [shoelace2]
  rw [hps, take_one_eq_of_head? hhd hne]

/-- `clipAt` is literally `coords[i:i+3]` and `coords[:i+1] + coords[i+2:]`. -/
theorem clipAt_spec : ∀ (p : List Pt) (i : Nat) (t : Tri) (r : List Pt),
    clipAt p i = some (t, r) →
    p[i]? = some t.a ∧ p[i + 1]? = some t.b ∧ p[i + 2]? = some t.c ∧ r = p.eraseIdx (i + 1)
  | [], i, t, r, h => by cases i <;> simp [clipAt] at h
  | [_], 0, t, r, h => by simp [clipAt] at h
  | [_, _], 0, t, r, h => by simp [clipAt] at h
  | a :: b :: c :: rest, 0, t, r, h => by
      simp only [clipAt, Option.some.injEq, Prod.mk.injEq] at h
      obtain ⟨rfl, rfl⟩ := h
      simp
  | a :: rest, i + 1, t, r, h => by
      cases hc : clipAt rest i with
      | none => simp [clipAt, hc] at h
      | some tr =>
        obtain ⟨t', r'⟩ := tr
        simp only [clipAt, hc, Option.map_some, Option.some.injEq, Prod.mk.injEq] at h
        obtain ⟨rfl, rfl⟩ := h
        obtain ⟨h0, h1, h2, h3⟩ := clipAt_spec rest i t' r' hc
        refine ⟨by simpa using h0, by simpa using h1, by simpa using h2, ?_⟩
        simp [h3]

theorem clipAt_isSome : ∀ (p : List Pt) (i : Nat), i + 2 < p.length → (clipAt p i).isSome
  | [], i, h => by simp at h
  | [_], 0, h => by simp at h
  | [_, _], 0, h => by simp at h
  | _ :: _ :: _ :: _, 0, _ => by simp [clipAt]
  | a :: rest, i + 1, h => by
      have := clipAt_isSome rest i (by simp only [List.length_cons] at h; omega)
      simp only [clipAt, Option.isSome_map, this]

/-! ### ear clipping -/

theorem findEar_some {isEar : List Pt → Nat → Bool} {p : List Pt} {i : Nat}
    (h : findEar isEar p = some i) : isEar p i = true ∧ i + 2 < p.length := by
  unfold findEar at h
  have h1 := List.find?_some h
  have h2 := List.mem_of_find?_eq_some h
  rw [List.mem_range] at h2
  exact ⟨h1, by omega⟩

theorem earClip_tri (isEar : List Pt → Nat → Bool) (fuel : Nat) (a b c : Pt) :
    earClip isEar fuel [a, b, c] = .ok [⟨a, b, c⟩] := by
  unfold earClip; rfl

theorem earClip_short (isEar : List Pt → Nat → Bool) (fuel : Nat) (p : List Pt)
    (h : p.length < 3) : earClip isEar fuel p = .error .tooShort := by
  unfold earClip
  split
  · simp at h
  · simp [h]

theorem earClip_zero (isEar : List Pt → Nat → Bool) (a b c d : Pt) (rest : List Pt) :
    earClip isEar 0 (a :: b :: c :: d :: rest) = .error .fuel := by
  unfold earClip
  simp

theorem earClip_succ (isEar : List Pt → Nat → Bool) (fuel : Nat) (a b c d : Pt)
    (rest : List Pt) :
    earClip isEar (fuel + 1) (a :: b :: c :: d :: rest) =
      match findEar isEar (a :: b :: c :: d :: rest) with
      | none => .error .noEar
      | some i =>
        match clipAt (a :: b :: c :: d :: rest) i with
        | none => .error .noEar
        | some (t, p') =>
          match earClip isEar fuel p' with
          | .ok ts => .ok (t :: ts)
          | .error e => .error e := by
  rw [earClip]
  · have : ¬ (a :: b :: c :: d :: rest).length < 3 := by
      simp only [List.length_cons]; omega
    rw [if_neg this]
    rfl
  · intro _ _ _ h; simp at h

theorem tri_facts (a b c : Pt) :
    sumArea2 [⟨a, b, c⟩] = shoelace2 [a, b, c] := by
  simp only [sumArea2, Tri.area2, shoelace2, List.take_succ_cons, List.take_zero,
    List.cons_append, List.nil_append, pathSum]
  rw [cross_eq_det]; ring

/-- Everything the theorems need about a successful run, by induction on the fuel. -/
theorem earClip_ok (isEar : List Pt → Nat → Bool) : ∀ (fuel : Nat) (p : List Pt) (ts : List Tri),
    earClip isEar fuel p = .ok ts →
    ts.length + 2 = p.length ∧ sumArea2 ts = shoelace2 p ∧
      (∀ t ∈ ts, t.a ∈ p ∧ t.b ∈ p ∧ t.c ∈ p) := by
  intro fuel
  induction fuel with
  | zero =>
    intro p ts h
    match p, h with
    | [], h => simp [earClip_short] at h
    | [_], h => simp [earClip_short] at h
    | [_, _], h => simp [earClip_short] at h
    | [a, b, c], h =>
      rw [earClip_tri] at h
      simp only [Except.ok.injEq] at h
      subst h
      exact ⟨rfl, tri_facts a b c, by intro t ht; simp at ht; subst ht; simp⟩
    | a :: b :: c :: d :: rest, h => rw [earClip_zero] at h; simp at h
  | succ fuel ih =>
    intro p ts h
    match p, h with
    | [], h => simp [earClip_short] at h
    | [_], h => simp [earClip_short] at h
    | [_, _], h => simp [earClip_short] at h
    | [a, b, c], h =>
      rw [earClip_tri] at h
      simp only [Except.ok.injEq] at h
      subst h
      exact ⟨rfl, tri_facts a b c, by intro t ht; simp at ht; subst ht; simp⟩
    | a :: b :: c :: d :: rest, h =>
      rw [earClip_succ] at h
      split at h
      · simp at h
      · split at h
        · simp at h
        · rename_i t p' hclip
          split at h
          · rename_i ts' hrec
            simp only [Except.ok.injEq] at h
            subst h
            obtain ⟨hlen, harea, hmem⟩ := ih p' ts' hrec
            obtain ⟨_, _, hl, _, htm, hsub⟩ := clipAt_props _ _ _ _ hclip
            refine ⟨by simp only [List.length_cons] at hl ⊢; omega, ?_, ?_⟩
            · simp only [sumArea2]
              rw [harea, clipAt_shoelace hclip]
            · intro u hu
              rcases List.mem_cons.mp hu with rfl | hu
              · exact htm
              · have := hmem u hu
                exact ⟨hsub _ this.1, hsub _ this.2.1, hsub _ this.2.2⟩
          · simp at h

/-- With fuel ≥ n - 3 the fuel error is impossible: the loop ends by itself. -/
theorem earClip_fuel (isEar : List Pt → Nat → Bool) : ∀ (fuel : Nat) (p : List Pt),
    p.length ≤ fuel + 3 → earClip isEar fuel p ≠ .error .fuel := by
  intro fuel
  induction fuel with
  | zero =>
    intro p hp h
    match p, hp, h with
    | [], _, h => simp [earClip_short] at h
    | [_], _, h => simp [earClip_short] at h
    | [_, _], _, h => simp [earClip_short] at h
    | [a, b, c], _, h => rw [earClip_tri] at h; simp at h
    | _ :: _ :: _ :: _ :: _, hp, _ => simp at hp
  | succ fuel ih =>
    intro p hp h
    match p, hp, h with
    | [], _, h => simp [earClip_short] at h
    | [_], _, h => simp [earClip_short] at h
    | [_, _], _, h => simp [earClip_short] at h
    | [a, b, c], _, h => rw [earClip_tri] at h; simp at h
    | a :: b :: c :: d :: rest, hp, h =>
      rw [earClip_succ] at h
      split at h
      · simp at h
      · split at h
        · simp at h
        · rename_i t p' hclip
          obtain ⟨_, _, hl, _, _, _⟩ := clipAt_props _ _ _ _ hclip
          split at h
          · simp at h
          · rename_i e hrec
            simp only [Except.error.injEq] at h
            subst h
            exact ih p' (by simp only [List.length_cons] at hl hp; omega) hrec

/-- If the oracle finds an ear in every polygon with more than three vertices, ear
clipping succeeds (two-ears theorem supplied as a hypothesis). -/
theorem earClip_succeeds (isEar : List Pt → Nat → Bool)
    (hear : ∀ q : List Pt, 3 < q.length → ∃ i, i + 2 < q.length ∧ isEar q i = true) :
    ∀ (fuel : Nat) (p : List Pt), 3 ≤ p.length → p.length ≤ fuel + 3 →
      ∃ ts, earClip isEar fuel p = .ok ts := by
  intro fuel
  induction fuel with
  | zero =>
    intro p h3 hp
    match p, h3, hp with
    | [a, b, c], _, _ => exact ⟨_, earClip_tri isEar 0 a b c⟩
    | [], h3, _ => simp at h3
    | [_], h3, _ => simp at h3
    | [_, _], h3, _ => simp at h3
    | _ :: _ :: _ :: _ :: _, _, hp => simp at hp
  | succ fuel ih =>
    intro p h3 hp
    match p, h3, hp with
    | [a, b, c], _, _ => exact ⟨_, earClip_tri isEar _ a b c⟩
    | [], h3, _ => simp at h3
    | [_], h3, _ => simp at h3
    | [_, _], h3, _ => simp at h3
    | a :: b :: c :: d :: rest, _, hp =>
      obtain ⟨i, hi, hei⟩ := hear (a :: b :: c :: d :: rest) (by simp)
      have hfind : ∃ j, findEar isEar (a :: b :: c :: d :: rest) = some j := by
        unfold findEar
        cases hf : List.find? (isEar (a :: b :: c :: d :: rest))
            (List.range ((a :: b :: c :: d :: rest).length - 2)) with
        | some j => exact ⟨j, rfl⟩
        | none =>
          rw [List.find?_eq_none] at hf
          have := hf i (by rw [List.mem_range]; omega)
          simp [hei] at this
      obtain ⟨j, hj⟩ := hfind
      obtain ⟨_, hj2⟩ := findEar_some hj
      have hsome := clipAt_isSome _ j hj2
      obtain ⟨⟨t, p'⟩, hclip⟩ := Option.isSome_iff_exists.mp hsome
      obtain ⟨_, _, hl, h2, _, _⟩ := clipAt_props _ _ _ _ hclip
      have hl' : p'.length = rest.length + 3 := by simp only [List.length_cons] at hl; omega
      obtain ⟨ts', hts'⟩ := ih p' (by omega) (by simp only [List.length_cons] at hp; omega)
      refine ⟨t :: ts', ?_⟩
      rw [earClip_succ]
      simp [hj, hclip, hts']

/-- A polygon with at least three vertices never produces the `tooShort` error: every
intermediate polygon of the loop still has at least three vertices. -/
theorem earClip_not_short (isEar : List Pt → Nat → Bool) : ∀ (fuel : Nat) (p : List Pt),
    3 ≤ p.length → earClip isEar fuel p ≠ .error .tooShort := by
  intro fuel
  induction fuel with
  | zero =>
    intro p hp h
    match p, hp, h with
    | [], hp, _ => simp at hp
    | [_], hp, _ => simp at hp
    | [_, _], hp, _ => simp at hp
    | [a, b, c], _, h => rw [earClip_tri] at h; simp at h
    | a :: b :: c :: d :: rest, _, h => rw [earClip_zero] at h; simp at h
  | succ fuel ih =>
    intro p hp h
    match p, hp, h with
    | [], hp, _ => simp at hp
    | [_], hp, _ => simp at hp
    | [_, _], hp, _ => simp at hp
    | [a, b, c], _, h => rw [earClip_tri] at h; simp at h
    | a :: b :: c :: d :: rest, hp, h =>
      rw [earClip_succ] at h
      split at h
      · simp at h
      · split at h
        · simp at h
        · rename_i t p' hclip
          obtain ⟨_, _, hl, _, _, _⟩ := clipAt_props _ _ _ _ hclip
          split at h
          · simp at h
          · rename_i e hrec
            simp only [Except.error.injEq] at h
            subst h
            exact ih p' (by simp only [List.length_cons] at hl; omega) hrec

/-! ### unsigned areas -/

theorem absR_of_nonneg {r : Rat} (h : 0 ≤ r) : absR r = r := by simp [absR, h]

theorem absR_of_nonpos {r : Rat} (h : r ≤ 0) : absR r = -r := by
  unfold absR
  split
  · have : r = 0 := le_antisymm h ‹0 ≤ r›
    simp [this]
  · rfl

theorem sumAbs_of_nonneg : ∀ ts : List Tri, (∀ t ∈ ts, 0 ≤ t.area2) →
    sumAbsArea2 ts = sumArea2 ts ∧ 0 ≤ sumArea2 ts
  | [], _ => by simp [sumAbsArea2, sumArea2]
  | t :: ts, h => by
      have ht := h t List.mem_cons_self
      obtain ⟨e, n⟩ := sumAbs_of_nonneg ts (fun u hu => h u (List.mem_cons_of_mem _ hu))
      simp only [sumAbsArea2, sumArea2, absR_of_nonneg ht, e]
      exact ⟨trivial, add_nonneg ht n⟩

theorem sumAbs_of_nonpos : ∀ ts : List Tri, (∀ t ∈ ts, t.area2 ≤ 0) →
    sumAbsArea2 ts = - sumArea2 ts ∧ sumArea2 ts ≤ 0
  | [], _ => by simp [sumAbsArea2, sumArea2]
  | t :: ts, h => by
      have ht := h t List.mem_cons_self
      obtain ⟨e, n⟩ := sumAbs_of_nonpos ts (fun u hu => h u (List.mem_cons_of_mem _ hu))
      simp only [sumAbsArea2, sumArea2, absR_of_nonpos ht, e]
      exact ⟨by ring, by linarith⟩

end Ems.Tri
