import EmsModel.Core.Triangulate
import EmsModel.Core.TriangulateGeom
import EmsModel.Lemmas.Triangulate
/-! Lemmas for `Props/C14Extent.lean`: the triangulation model under a similarity
`q ↦ origin + k · q` (the same cells in another unit of length, at another place).
Orientation tests scale by `k²`, so every decision the model takes is the same at every extent. -/
namespace Ems.Tri

/-- The similarity `q ↦ origin + k · q`: the same cell in another unit / at another place. -/
def sim (k ox oy : Rat) (q : Pt) : Pt := ⟨ox + k * q.x, oy + k * q.y⟩

/-- A triangle under the similarity. -/
def simTri (k ox oy : Rat) (t : Tri) : Tri := ⟨sim k ox oy t.a, sim k ox oy t.b, sim k ox oy t.c⟩

theorem cross_sim (k ox oy : Rat) (o a b : Pt) :
    cross (sim k ox oy o) (sim k ox oy a) (sim k ox oy b) = k * k * cross o a b := by
  simp only [cross, sim]; ring

theorem sim_injective {k : Rat} (hk : k ≠ 0) (ox oy : Rat) : Function.Injective (sim k ox oy) := by
  intro a b h
  cases a; cases b
  simp only [sim, Pt.mk.injEq] at h
  obtain ⟨h1, h2⟩ := h
  have e1 := mul_left_cancel₀ hk (add_left_cancel h1)
  have e2 := mul_left_cancel₀ hk (add_left_cancel h2)
  simp [e1, e2]

theorem edges_map (f : Pt → Pt) (p : List Pt) :
    edges (p.map f) = (edges p).map (fun e => (f e.1, f e.2)) := by
  simp only [edges, ← List.map_tail, ← List.map_take, ← List.map_append, List.zip_map]
  simp [Prod.map]

theorem fanFrom_map (f : Pt → Pt) (v0 : Pt) (l : List Pt) :
    fanFrom (f v0) (l.map f) = (fanFrom v0 l).map (fun t => ⟨f t.a, f t.b, f t.c⟩) := by
  induction l with
  | nil => simp [fanFrom]
  | cons a rest ih =>
    cases rest with
    | nil => simp [fanFrom]
    | cons b rest' =>
      simp only [List.map_cons, fanFrom] at ih ⊢
      simp [ih]

theorem fan_map (f : Pt → Pt) (p : List Pt) :
    fan (p.map f) = (fan p).map (fun t => ⟨f t.a, f t.b, f t.c⟩) := by
  cases p with
  | nil => simp [fan]
  | cons v0 rest => simpa [fan] using fanFrom_map f v0 rest

theorem strictConvex_sim {k : Rat} (hk : k ≠ 0) (ox oy s : Rat) (p : List Pt) :
    StrictConvex s (p.map (sim k ox oy)) ↔ StrictConvex s p := by
  have hkk : 0 < k * k := mul_self_pos.mpr hk
  have inj := sim_injective hk ox oy
  have key : ∀ a b v : Pt, (0 < s * cross (sim k ox oy a) (sim k ox oy b) (sim k ox oy v)) ↔ 0 < s * cross a b v := by
    intro a b v
    rw [cross_sim, show s * (k * k * cross a b v) = (k * k) * (s * cross a b v) by ring]
    exact mul_pos_iff_of_pos_left hkk
  unfold StrictConvex
  rw [edges_map]
  constructor
  · intro h e he v hv h1 h2
    exact (key e.1 e.2 v).mp (h (sim k ox oy e.1, sim k ox oy e.2) (List.mem_map.mpr ⟨e, he, rfl⟩)
      (sim k ox oy v) (List.mem_map_of_mem hv) (fun hh => h1 (inj hh)) (fun hh => h2 (inj hh)))
  · intro h e' he' v' hv' h1 h2
    obtain ⟨e, he, rfl⟩ := List.mem_map.mp he'
    obtain ⟨v, hv, rfl⟩ := List.mem_map.mp hv'
    exact (key e.1 e.2 v).mpr (h e he v hv (fun hh => h1 (by rw [hh])) (fun hh => h2 (by rw [hh])))

theorem isStrictConvex_sim {k : Rat} (hk : k ≠ 0) (ox oy : Rat) (p : List Pt) :
    isStrictConvex (p.map (sim k ox oy)) = isStrictConvex p := by
  have inj := sim_injective hk ox oy
  have nd : (p.map (sim k ox oy)).Nodup ↔ p.Nodup := by
    unfold List.Nodup
    rw [List.pairwise_map]
    constructor
    · exact List.Pairwise.imp (fun h hh => h (by rw [hh]))
    · exact List.Pairwise.imp (fun h hh => h (inj hh))
  unfold isStrictConvex
  simp only [List.length_map, nd, strictConvex_sim hk]

theorem area2_simTri (k ox oy : Rat) (t : Tri) : (simTri k ox oy t).area2 = k * k * t.area2 := by
  simp only [Tri.area2, simTri, cross_sim]

theorem absR_mul_nonneg {c : Rat} (hc : 0 ≤ c) (r : Rat) : absR (c * r) = c * absR r := by
  unfold absR
  by_cases h : 0 ≤ r
  · simp [h, mul_nonneg hc h]
  · have hr : r < 0 := lt_of_not_ge h
    rcases eq_or_lt_of_le hc with h0 | hpos
    · subst h0; simp
    · have : ¬ 0 ≤ c * r := not_le.mpr (mul_neg_of_pos_of_neg hpos hr)
      simp [h, this]

theorem sumAbsArea2_sim (k ox oy : Rat) (ts : List Tri) :
    sumAbsArea2 (ts.map (simTri k ox oy)) = k * k * sumAbsArea2 ts := by
  induction ts with
  | nil => simp [sumAbsArea2]
  | cons t rest ih =>
    simp only [List.map_cons, sumAbsArea2, ih, area2_simTri, absR_mul_nonneg (mul_self_nonneg k)]
    ring

theorem sumArea2_sim (k ox oy : Rat) (ts : List Tri) :
    sumArea2 (ts.map (simTri k ox oy)) = k * k * sumArea2 ts := by
  induction ts with
  | nil => simp [sumArea2]
  | cons t rest ih =>
    simp only [List.map_cons, sumArea2, ih, area2_simTri]
    ring

/-- The shoelace area of the closed polygon scales by `k²` (and ignores the translation). -/
theorem shoelace2_sim (k ox oy : Rat) (p : List Pt) :
    shoelace2 (p.map (sim k ox oy)) = k * k * shoelace2 p := by
  rw [← sumArea2_fan, ← sumArea2_fan, fan_map]
  exact sumArea2_sim k ox oy (fan p)

end Ems.Tri
