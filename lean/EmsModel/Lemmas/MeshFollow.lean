import EmsModel.Lemmas.MeshTopo
/-!
Lemmas/MeshFollow.lean — a derived edge table keeps the edge numbering of a supplied
`face_edge_connectivity` / `edge_face_connectivity` table
(`makeEdgeNodeFollowingFaceEdge`, `makeEdgeNodeFollowingEdgeFace` of `Core/Mesh.lean`).
-/
namespace Ems.Mesh

/-! ### small list facts -/

/-- a duplicate-free list inside `r` that is at least as long as `r` contains all of `r` -/
theorem subset_of_nodup_length {α} [DecidableEq α] (l r : List α) (hn : l.Nodup)
    (hs : ∀ a ∈ l, a ∈ r) (hlen : r.length ≤ l.length) : ∀ a ∈ r, a ∈ l := by
  intro a ha
  apply Classical.byContradiction
  intro hna
  have hsub : ∀ b ∈ l, b ∈ r.erase a := by
    intro b hb
    have hne : b ≠ a := fun h => hna (h ▸ hb)
    exact (List.mem_erase_of_ne hne).mpr (hs b hb)
  have h1 := length_le_of_nodup_subset l (r.erase a) hn hsub
  have h2 := List.length_erase_of_mem ha
  have hpos : 0 < r.length := List.length_pos_of_mem ha
  omega

theorem numpyIndex_lt {n : Nat} {k : Int} {i : Nat} (h : numpyIndex n k = some i) : i < n := by
  unfold numpyIndex at h
  split at h
  · simp only [Option.some.injEq] at h; omega
  · split at h
    · simp only [Option.some.injEq] at h; omega
    · simp at h

theorem numpyIndex_of_nonneg {n : Nat} {k : Int} {i : Nat} (h : numpyIndex n k = some i) (hk : 0 ≤ k) :
    k = (i : Int) := by
  unfold numpyIndex at h
  split at h
  · simp only [Option.some.injEq] at h; omega
  · split at h
    · omega
    · simp at h

theorem numpyIndex_ofNat {n k : Nat} (h : k < n) : numpyIndex n (k : Int) = some k := by
  unfold numpyIndex
  have : (0 : Int) ≤ (k : Int) ∧ (k : Int) < (n : Int) := by omega
  simp [this]

/-! ### the writes applied to the masked table -/

theorem length_foldl_set (ws : List (Nat × Pair)) (init : Table) :
    (ws.foldl (fun rows w => rows.set w.1 (pairRow w.2)) init).length = init.length := by
  induction ws generalizing init with
  | nil => rfl
  | cons w ws ih => simp [ih]

theorem length_applyWrites (n : Nat) (ws : List (Nat × Pair)) : (applyWrites n ws).length = n := by
  simp [applyWrites, length_foldl_set]

/-- a row no write names keeps its content -/
theorem foldl_set_untouched (ws : List (Nat × Pair)) (init : Table) (k : Nat)
    (h : ∀ w ∈ ws, w.1 ≠ k) :
    (ws.foldl (fun rows w => rows.set w.1 (pairRow w.2)) init)[k]? = init[k]? := by
  induction ws generalizing init with
  | nil => rfl
  | cons w ws ih =>
    simp only [List.foldl_cons]
    rw [ih _ (fun x hx => h x (by simp [hx])), List.getElem?_set]
    have := h w (by simp)
    simp [this]

/-- a row all of whose writes carry the same value holds that value (if written at all) -/
theorem foldl_set_const (ws : List (Nat × Pair)) (init : Table) (k : Nat) (v : List (Option Int))
    (hk : k < init.length) (hall : ∀ w ∈ ws, w.1 = k → pairRow w.2 = v)
    (h : init[k]? = some v ∨ ∃ w ∈ ws, w.1 = k) :
    (ws.foldl (fun rows w => rows.set w.1 (pairRow w.2)) init)[k]? = some v := by
  induction ws generalizing init with
  | nil =>
    rcases h with h | ⟨w, hw, _⟩
    · exact h
    · simp at hw
  | cons w ws ih =>
    simp only [List.foldl_cons]
    apply ih
    · simpa using hk
    · intro x hx; exact hall x (by simp [hx])
    · by_cases hwk : w.1 = k
      · left
        rw [List.getElem?_set]
        simp [hwk, hk, hall w (by simp) hwk]
      · rcases h with h | ⟨x, hx, hxk⟩
        · left
          rw [List.getElem?_set]
          simp [hwk, h]
        · rcases List.mem_cons.mp hx with rfl | hx'
          · exact absurd hxk hwk
          · right; exact ⟨x, hx', hxk⟩

/-- the last write to a row wins -/
theorem foldl_set_last (ws : List (Nat × Pair)) (w : Nat × Pair) (init : Table) (hk : w.1 < init.length) :
    ((ws ++ [w]).foldl (fun rows x => rows.set x.1 (pairRow x.2)) init)[w.1]? = some (pairRow w.2) := by
  rw [List.foldl_append]
  simp only [List.foldl_cons, List.foldl_nil]
  rw [List.getElem?_set]
  simp [length_foldl_set, hk]

/-! ### the list of writes -/

/-- the side `(fi, c)` of the mesh: face `fi` exists and has a `c`-th consecutive node pair `p` -/
def IsSide (faces : List (List Int)) (fi c : Nat) (p : Pair) : Prop :=
  ∃ f, faces[fi]? = some f ∧ (facePairs f)[c]? = some p

theorem isSide_mem_own {faces : List (List Int)} {fi c : Nat} {p : Pair} (h : IsSide faces fi c p) :
    normPair p ∈ makeEdgeNode faces := by
  obtain ⟨f, hf, hp⟩ := h
  exact mem_makeEdgeNode.mpr ⟨f, List.mem_of_getElem? hf, p, List.mem_of_getElem? hp, rfl⟩

theorem mem_own_isSide {faces : List (List Int)} {e : Pair} (h : e ∈ makeEdgeNode faces) :
    ∃ fi c p, IsSide faces fi c p ∧ normPair p = e := by
  obtain ⟨f, hf, p, hp, rfl⟩ := mem_makeEdgeNode.mp h
  obtain ⟨fi, hfi⟩ := List.mem_iff_getElem?.mp hf
  obtain ⟨c, hc⟩ := List.mem_iff_getElem?.mp hp
  exact ⟨fi, c, p, ⟨f, hfi, hc⟩, rfl⟩

theorem mem_faceEdgeWrites_raw {n : Nat} {faces : List (List Int)} {fe : Table} {x : Option (Nat × Pair)} :
    x ∈ (faces.zipIdx.flatMap fun ff => faceWrites n fe ff.1 ff.2) ↔
      ∃ fi c p, IsSide faces fi c p ∧ x = (writeTarget n fe fi c).map fun i => (i, normPair p) := by
  simp only [List.mem_flatMap, faceWrites, List.mem_map]
  constructor
  · rintro ⟨ff, hff, pc, hpc, rfl⟩
    have h1 := List.mem_zipIdx_iff_getElem?.mp hff
    have h2 := List.mem_zipIdx_iff_getElem?.mp hpc
    exact ⟨ff.2, pc.2, pc.1, ⟨ff.1, h1, h2⟩, rfl⟩
  · rintro ⟨fi, c, p, ⟨f, hf, hp⟩, rfl⟩
    refine ⟨(f, fi), List.mem_zipIdx_iff_getElem?.mpr hf, (p, c), List.mem_zipIdx_iff_getElem?.mpr hp, rfl⟩

/-- the writes are exactly: one for every side, to the row its `face_edge` entry names -/
theorem mem_faceEdgeWrites {n : Nat} {faces : List (List Int)} {fe : Table} {ws : List (Nat × Pair)}
    (h : faceEdgeWrites n faces fe = some ws) (w : Nat × Pair) :
    w ∈ ws ↔ ∃ fi c p, IsSide faces fi c p ∧ writeTarget n fe fi c = some w.1 ∧ w.2 = normPair p := by
  have hL := (optAll_eq_some _ _).mp h
  have hm : w ∈ ws ↔ some w ∈ (faces.zipIdx.flatMap fun ff => faceWrites n fe ff.1 ff.2) := by
    rw [hL]; simp
  rw [hm, mem_faceEdgeWrites_raw]
  constructor
  · rintro ⟨fi, c, p, hs, hx⟩
    refine ⟨fi, c, p, hs, ?_⟩
    cases ht : writeTarget n fe fi c with
    | none => simp [ht] at hx
    | some i =>
      simp only [ht, Option.map_some, Option.some.injEq] at hx
      subst hx
      exact ⟨rfl, rfl⟩
  · rintro ⟨fi, c, p, hs, ht, hp⟩
    refine ⟨fi, c, p, hs, ?_⟩
    simp [ht, ← hp]

/-- every side has a target row when the writes exist -/
theorem writeTarget_isSome {n : Nat} {faces : List (List Int)} {fe : Table} {ws : List (Nat × Pair)}
    (h : faceEdgeWrites n faces fe = some ws) {fi c : Nat} {p : Pair} (hs : IsSide faces fi c p) :
    ∃ i, writeTarget n fe fi c = some i ∧ (i, normPair p) ∈ ws := by
  have hL := (optAll_eq_some _ _).mp h
  have hx : (writeTarget n fe fi c).map (fun i => (i, normPair p)) ∈
      (faces.zipIdx.flatMap fun ff => faceWrites n fe ff.1 ff.2) :=
    mem_faceEdgeWrites_raw.mpr ⟨fi, c, p, hs, rfl⟩
  rw [hL] at hx
  obtain ⟨w, hw, hwx⟩ := List.mem_map.mp hx
  cases ht : writeTarget n fe fi c with
  | none => simp [ht] at hwx
  | some i =>
    simp only [ht, Option.map_some, Option.some.injEq] at hwx
    subst hwx
    exact ⟨i, rfl, hw⟩

/-- conversely: a side without a target row (entry outside the table, masked, or not a row of
the edge table) makes the whole derivation raise -/
theorem faceEdgeWrites_none {n : Nat} {faces : List (List Int)} {fe : Table} {fi c : Nat} {p : Pair}
    (hs : IsSide faces fi c p) (ht : writeTarget n fe fi c = none) : faceEdgeWrites n faces fe = none := by
  apply optAll_eq_none_of_mem
  have := (mem_faceEdgeWrites_raw (n := n) (fe := fe)).mpr ⟨fi, c, p, hs, rfl⟩
  simpa [ht] using this

theorem writeTarget_lt {n : Nat} {fe : Table} {fi c i : Nat} (h : writeTarget n fe fi c = some i) : i < n := by
  unfold writeTarget at h
  split at h
  · exact numpyIndex_lt h
  · simp at h

/-! ### a `face_edge` table that describes the faces -/

/-- what `faceEdgeDescribes` says, as a proposition -/
theorem faceEdgeDescribes_iff {faces : List (List Int)} {fe : Table} :
    faceEdgeDescribes faces fe = true ↔
      ∃ ws, faceEdgeWrites (makeEdgeNode faces).length faces fe = some ws ∧
        ∀ a ∈ ws, ∀ b ∈ ws, (a.1 = b.1 ↔ a.2 = b.2) := by
  unfold faceEdgeDescribes
  cases h : faceEdgeWrites (makeEdgeNode faces).length faces fe with
  | none => simp
  | some ws => simp [List.all_eq_true]

/-- pigeonhole: when different node pairs get different rows, every row is written -/
theorem every_row_written {faces : List (List Int)} {fe : Table} {ws : List (Nat × Pair)}
    (hws : faceEdgeWrites (makeEdgeNode faces).length faces fe = some ws)
    (hinj : ∀ a ∈ ws, ∀ b ∈ ws, a.1 = b.1 → a.2 = b.2) :
    ∀ k, k < (makeEdgeNode faces).length → ∃ w ∈ ws, w.1 = k := by
  let own := makeEdgeNode faces
  let ι : Pair → Nat := fun e => ((ws.find? (fun w => w.2 == e)).map (·.1)).getD 0
  have hfind : ∀ e ∈ own, ∃ w ∈ ws, w.2 = e ∧ ι e = w.1 := by
    intro e he
    obtain ⟨fi, c, p, hs, rfl⟩ := mem_own_isSide he
    obtain ⟨i, _, hmem⟩ := writeTarget_isSome hws hs
    have hsome : (ws.find? (fun w => w.2 == normPair p)).isSome :=
      List.find?_isSome.mpr ⟨(i, normPair p), hmem, by simp⟩
    obtain ⟨w, hw⟩ := Option.isSome_iff_exists.mp hsome
    refine ⟨w, List.mem_of_find?_eq_some hw, ?_, ?_⟩
    · simpa using List.find?_some hw
    · simp [ι, hw]
  have hnd : (own.map ι).Nodup := by
    rw [List.Nodup, List.pairwise_map]
    refine List.Pairwise.imp_of_mem ?_ (nodup_makeEdgeNode faces)
    intro a b ha hb hab heq
    obtain ⟨wa, hwa, hwa2, hia⟩ := hfind a ha
    obtain ⟨wb, hwb, hwb2, hib⟩ := hfind b hb
    have := hinj wa hwa wb hwb (by rw [← hia, ← hib, heq])
    exact hab (by rw [← hwa2, ← hwb2, this])
  have hsub : ∀ k ∈ own.map ι, k ∈ List.range own.length := by
    intro k hk
    obtain ⟨e, he, rfl⟩ := List.mem_map.mp hk
    obtain ⟨w, hw, _, hi⟩ := hfind e he
    obtain ⟨fi, c, p, _, ht, _⟩ := (mem_faceEdgeWrites hws w).mp hw
    rw [List.mem_range, hi]
    exact writeTarget_lt ht
  have hall := subset_of_nodup_length (own.map ι) (List.range own.length) hnd hsub (by simp)
  intro k hk
  have := hall k (List.mem_range.mpr hk)
  obtain ⟨e, he, rfl⟩ := List.mem_map.mp this
  obtain ⟨w, hw, _, hi⟩ := hfind e he
  exact ⟨w, hw, hi.symm⟩

/-- **the derived edge table follows a supplied `face_edge` table that describes the faces**:
it is a renumbering of the mesh's own edges, stored (low, high), and the row a face names for
its `c`-th side holds the `c`-th consecutive node pair of that face. -/
theorem followFaceEdge_spec {faces : List (List Int)} {fe : Table} (hd : faceEdgeDescribes faces fe = true) :
    ∃ w : List Pair,
      makeEdgeNodeFollowingFaceEdge faces fe = .ok (w.map pairRow) ∧
      isRenumbering w (makeEdgeNode faces) = true ∧
      w.length = (makeEdgeNode faces).length ∧
      (∀ e ∈ w, e.1 ≤ e.2) ∧
      ∀ fi c p, IsSide faces fi c p →
        ∃ k, writeTarget (makeEdgeNode faces).length fe fi c = some k ∧ w[k]? = some (normPair p) := by
  obtain ⟨ws, hws, hbij⟩ := faceEdgeDescribes_iff.mp hd
  let own := makeEdgeNode faces
  have hrows := every_row_written hws (fun a ha b hb h => (hbij a ha b hb).mp h)
  -- the pair of row k
  let pk : Nat → Pair := fun k => ((ws.find? (fun w => w.1 == k)).map (·.2)).getD (0, 0)
  have hpk : ∀ k, k < own.length → (k, pk k) ∈ ws := by
    intro k hk
    obtain ⟨w, hw, hwk⟩ := hrows k hk
    have hsome : (ws.find? (fun w => w.1 == k)).isSome := List.find?_isSome.mpr ⟨w, hw, by simp [hwk]⟩
    obtain ⟨x, hx⟩ := Option.isSome_iff_exists.mp hsome
    have hxk : x.1 = k := by simpa using List.find?_some hx
    have : pk k = x.2 := by simp [pk, hx]
    rw [this, ← hxk]
    exact List.mem_of_find?_eq_some hx
  have hpk_own : ∀ k, k < own.length → pk k ∈ own := by
    intro k hk
    obtain ⟨fi, c, p, hs, _, hp⟩ := (mem_faceEdgeWrites hws _).mp (hpk k hk)
    simp only at hp
    rw [hp]
    exact isSide_mem_own hs
  have huniq : ∀ k p, (k, p) ∈ ws → k < own.length → pk k = p := by
    intro k p hmem hk
    exact (hbij _ (hpk k hk) _ hmem).mp rfl
  let w : List Pair := (List.range own.length).map pk
  have hw_get : ∀ k, k < own.length → w[k]? = some (pk k) := by
    intro k hk
    simp [w, hk]
  have hnorm : ∀ e ∈ w, normPair e = e := by
    intro e he
    obtain ⟨k, hk, rfl⟩ := List.mem_map.mp he
    have := hpk_own k (List.mem_range.mp hk)
    obtain ⟨f, _, p, _, hp⟩ := mem_makeEdgeNode.mp this
    rw [← hp]
    exact normPair_idem p
  refine ⟨w, ?_, ?_, by simp [w, own], ?_, ?_⟩
  · -- the table
    simp only [makeEdgeNodeFollowingFaceEdge, hws]
    congr 1
    apply List.ext_getElem?
    intro k
    by_cases hk : k < own.length
    · rw [List.getElem?_map, hw_get k hk]
      simp only [applyWrites, Option.map_some]
      apply foldl_set_const
      · simpa using hk
      · intro x hx hxk
        have : pk k = x.2 := huniq k x.2 (by rw [← hxk]; exact hx) hk
        rw [this]
      · right
        exact ⟨(k, pk k), hpk k hk, rfl⟩
    · have h1 : (applyWrites own.length ws)[k]? = none := by
        rw [List.getElem?_eq_none_iff, length_applyWrites]; omega
      have h2 : (w.map pairRow)[k]? = none := by
        rw [List.getElem?_eq_none_iff]; simp [w]; omega
      rw [h1, h2]
  · -- renumbering
    have hmapnorm : w.map normPair = w := map_eq_self_of_forall hnorm
    simp only [isRenumbering, Bool.and_eq_true, decide_eq_true_eq, List.all_eq_true, List.contains_iff_mem]
    refine ⟨⟨?_, ?_⟩, ?_⟩
    · rw [hmapnorm]
      show (List.map pk (List.range own.length)).Nodup
      rw [List.Nodup, List.pairwise_map]
      refine List.Pairwise.imp_of_mem ?_ (List.nodup_range (n := own.length))
      intro a b ha hb hab heq
      have ha' := List.mem_range.mp ha
      have hb' := List.mem_range.mp hb
      exact hab ((hbij _ (hpk a ha') _ (hpk b hb')).mpr heq)
    · intro e he
      rw [hnorm e he]
      obtain ⟨k, hk, rfl⟩ := List.mem_map.mp he
      exact hpk_own k (List.mem_range.mp hk)
    · intro e he
      rw [hmapnorm]
      obtain ⟨fi, c, p, hs, rfl⟩ := mem_own_isSide he
      obtain ⟨i, ht, hmem⟩ := writeTarget_isSome hws hs
      have hi := writeTarget_lt ht
      have := huniq i _ hmem hi
      rw [← this]
      exact List.mem_map.mpr ⟨i, List.mem_range.mpr hi, rfl⟩
  · intro e he
    rw [← hnorm e he]
    exact normPair_le e
  · intro fi c p hs
    obtain ⟨i, ht, hmem⟩ := writeTarget_isSome hws hs
    have hi := writeTarget_lt ht
    exact ⟨i, ht, by rw [hw_get i hi, huniq i _ hmem hi]⟩

/-! ### a `face_edge` table that does not describe the faces -/

/-- the table always has one row per edge of the mesh, and a row is either masked or a node
pair of the mesh stored (low, high) -/
theorem followFaceEdge_rows {faces : List (List Int)} {fe : Table} {tab : Table}
    (h : makeEdgeNodeFollowingFaceEdge faces fe = .ok tab) :
    tab.length = (makeEdgeNode faces).length ∧
    ∀ k row, tab[k]? = some row →
      (row = maskedRow ∧ ∀ fi c p, IsSide faces fi c p → writeTarget (makeEdgeNode faces).length fe fi c ≠ some k) ∨
      (∃ fi c p, IsSide faces fi c p ∧ writeTarget (makeEdgeNode faces).length fe fi c = some k ∧
        row = pairRow (normPair p)) := by
  simp only [makeEdgeNodeFollowingFaceEdge] at h
  cases hws : faceEdgeWrites (makeEdgeNode faces).length faces fe with
  | none => simp [hws] at h
  | some ws =>
    simp only [hws, Except.ok.injEq] at h
    subst h
    refine ⟨length_applyWrites _ _, ?_⟩
    intro k row hrow
    have hk : k < (makeEdgeNode faces).length := by
      have := (List.getElem?_eq_some_iff.mp hrow).1
      rwa [length_applyWrites] at this
    by_cases hany : ∃ w ∈ ws, w.1 = k
    · right
      -- the last write to row k
      have key : ∀ (ws' : List (Nat × Pair)) (init : Table), k < init.length → (∃ w ∈ ws', w.1 = k) →
          ∃ w ∈ ws', w.1 = k ∧
            (ws'.foldl (fun rows x => rows.set x.1 (pairRow x.2)) init)[k]? = some (pairRow w.2) := by
        intro ws'
        induction ws' with
        | nil => intro _ _ h; simp at h
        | cons x l ih =>
          intro init hlen hex
          simp only [List.foldl_cons]
          by_cases hl : ∃ w ∈ l, w.1 = k
          · obtain ⟨w', hw', hwk', hval⟩ := ih (init.set x.1 (pairRow x.2)) (by simpa using hlen) hl
            exact ⟨w', by simp [hw'], hwk', hval⟩
          · have hx : x.1 = k := by
              obtain ⟨w, hw, hwk⟩ := hex
              rcases List.mem_cons.mp hw with rfl | h
              · exact hwk
              · exact absurd ⟨w, h, hwk⟩ hl
            refine ⟨x, by simp, hx, ?_⟩
            rw [foldl_set_untouched l _ k (fun w hw hwk => hl ⟨w, hw, hwk⟩), List.getElem?_set]
            simp [hx, hlen]
      obtain ⟨w, hw, hwk, hval⟩ := key ws (List.replicate _ maskedRow) (by simpa using hk) hany
      obtain ⟨fi, c, p, hs, ht, hp⟩ := (mem_faceEdgeWrites hws w).mp hw
      refine ⟨fi, c, p, hs, by rw [ht, hwk], ?_⟩
      have : (applyWrites (makeEdgeNode faces).length ws)[k]? = some (pairRow w.2) := hval
      rw [this] at hrow
      rw [← hp]
      exact (Option.some.inj hrow).symm
    · left
      have hno : ∀ w ∈ ws, w.1 ≠ k := fun w hw hwk => hany ⟨w, hw, hwk⟩
      have := foldl_set_untouched ws (List.replicate (makeEdgeNode faces).length maskedRow) k hno
      have h2 : (applyWrites (makeEdgeNode faces).length ws)[k]? = some maskedRow := by
        simp only [applyWrites]
        rw [this, List.getElem?_replicate]
        simp [hk]
      rw [h2] at hrow
      refine ⟨(Option.some.inj hrow).symm, ?_⟩
      intro fi c p hs ht
      obtain ⟨i, hti, hmem⟩ := writeTarget_isSome hws hs
      rw [ht] at hti
      exact hno _ hmem (Option.some.inj hti).symm

/-! ### following a supplied `edge_face` table -/

theorem sameFaces_iff {a b : List Int} : sameFaces a b = true ↔ ∀ x, x ∈ a ↔ x ∈ b := by
  simp only [sameFaces, Bool.and_eq_true, List.all_eq_true, List.contains_iff_mem]
  constructor
  · rintro ⟨h1, h2⟩ x; exact ⟨h1 x, h2 x⟩
  · intro h; exact ⟨fun x hx => (h x).mp hx, fun x hx => (h x).mpr hx⟩

theorem sameFaces_refl (a : List Int) : sameFaces a a = true := sameFaces_iff.mpr fun _ => Iff.rfl

theorem sameFaces_congr_right {a b c : List Int} (h : sameFaces a b = true) :
    sameFaces b c = sameFaces a c := by
  have hab := sameFaces_iff.mp h
  rw [Bool.eq_iff_iff, sameFaces_iff, sameFaces_iff]
  constructor
  · intro hbc x; exact (hab x).trans (hbc x)
  · intro hac x; exact (hab x).symm.trans (hac x)

/-- the faces listed for a side are exactly the faces that have it among their consecutive node pairs -/
theorem mem_sideFaces {faces : List (List Int)} {e : Pair} {x : Int} :
    x ∈ sideFaces faces e ↔
      ∃ (i : Nat) (f : List Int), faces[i]? = some f ∧ x = (i : Int) ∧ ∃ p ∈ facePairs f, normPair p = normPair e := by
  simp only [sideFaces, List.mem_map, List.mem_filter, List.contains_iff_mem]
  constructor
  · rintro ⟨ff, ⟨hff, hc⟩, rfl⟩
    obtain ⟨p, hp, hpe⟩ := hc
    exact ⟨ff.2, ff.1, List.mem_zipIdx_iff_getElem?.mp hff, rfl, p, hp, hpe⟩
  · rintro ⟨i, f, hf, rfl, p, hp, hpe⟩
    exact ⟨(f, i), ⟨List.mem_zipIdx_iff_getElem?.mpr hf, p, hp, hpe⟩, rfl⟩

theorem takeSide_some {faces : List (List Int)} {key : List Int} :
    ∀ {l : List Pair} {e : Pair} {rest : List Pair}, takeSide faces key l = some (e, rest) →
      sameFaces (sideFaces faces e) key = true ∧ l.Perm (e :: rest)
  | [], _, _, h => by simp [takeSide] at h
  | x :: xs, e, rest, h => by
    simp only [takeSide] at h
    split at h
    · rename_i hx
      simp only [Option.some.injEq, Prod.mk.injEq] at h
      obtain ⟨rfl, rfl⟩ := h
      exact ⟨hx, List.Perm.refl _⟩
    · cases hr : takeSide faces key xs with
      | none => simp [hr] at h
      | some r =>
        simp only [hr, Option.map_some, Option.some.injEq, Prod.mk.injEq] at h
        obtain ⟨rfl, rfl⟩ := h
        obtain ⟨h1, h2⟩ := takeSide_some (l := xs) (e := r.1) (rest := r.2) (by rw [hr])
        exact ⟨h1, (h2.cons x).trans (List.Perm.swap _ _ _)⟩

theorem takeSide_eq_none {faces : List (List Int)} {key : List Int} :
    ∀ {l : List Pair}, takeSide faces key l = none ↔ ∀ e ∈ l, sameFaces (sideFaces faces e) key = false
  | [] => by simp [takeSide]
  | x :: xs => by
    simp only [takeSide]
    by_cases hx : sameFaces (sideFaces faces x) key = true
    · simp [hx]
    · have hx' : sameFaces (sideFaces faces x) key = false := by simpa using hx
      simp [hx', takeSide_eq_none (l := xs)]

/-- what a successful run of the loop returns: one side per row, taken from the unused ones,
bordering exactly the faces of its row -/
theorem matchEdgeFace_some {faces : List (List Int)} :
    ∀ {keys : List (List Int)} {unused w : List Pair}, matchEdgeFace faces unused keys = some w →
      w.length = keys.length ∧ (∃ rest, unused.Perm (w ++ rest)) ∧
      ∀ (i : Nat) e key, w[i]? = some e → keys[i]? = some key → sameFaces (sideFaces faces e) key = true
  | [], unused, w, h => by
    simp only [matchEdgeFace, Option.some.injEq] at h
    subst h
    exact ⟨rfl, ⟨unused, by simp⟩, by simp⟩
  | key :: keys, unused, w, h => by
    simp only [matchEdgeFace] at h
    cases ht : takeSide faces key unused with
    | none => simp [ht] at h
    | some er =>
      obtain ⟨e, rest0⟩ := er
      simp only [ht] at h
      cases hm : matchEdgeFace faces rest0 keys with
      | none => simp [hm] at h
      | some w' =>
        simp only [hm, Option.map_some, Option.some.injEq] at h
        subst h
        obtain ⟨hkey, hperm⟩ := takeSide_some ht
        obtain ⟨hlen, ⟨rest, hrest⟩, hpt⟩ := matchEdgeFace_some hm
        refine ⟨by simp [hlen], ⟨rest, hperm.trans (by simpa using hrest.cons e)⟩, ?_⟩
        intro i e' key' he hk
        cases i with
        | zero =>
          simp only [List.getElem?_cons_zero, Option.some.injEq] at he hk
          subst he hk
          exact hkey
        | succ i =>
          simp only [List.getElem?_cons_succ] at he hk
          exact hpt i e' key' he hk

/-- **when the loop succeeds**: exactly when no set of faces is listed by more rows than there
are unused sides bordering exactly those faces -/
theorem matchEdgeFace_isSome_iff {faces : List (List Int)} :
    ∀ {keys : List (List Int)} {unused : List Pair},
      (matchEdgeFace faces unused keys).isSome = true ↔
        ∀ K : List Int, keys.countP (fun k => sameFaces k K) ≤
          unused.countP (fun e => sameFaces (sideFaces faces e) K)
  | [], unused => by simp [matchEdgeFace]
  | key :: keys, unused => by
    simp only [matchEdgeFace]
    cases ht : takeSide faces key unused with
    | none =>
      simp only [Option.isSome_none, Bool.false_eq_true, false_iff]
      intro hall
      have h0 : unused.countP (fun e => sameFaces (sideFaces faces e) key) = 0 := by
        rw [List.countP_eq_zero]
        intro e he
        simp [takeSide_eq_none.mp ht e he]
      have := hall key
      simp [sameFaces_refl, h0] at this
    | some er =>
      obtain ⟨e, rest0⟩ := er
      obtain ⟨hkey, hperm⟩ := takeSide_some ht
      have hcount : ∀ K, unused.countP (fun e => sameFaces (sideFaces faces e) K) =
          rest0.countP (fun e => sameFaces (sideFaces faces e) K) + (if sameFaces key K = true then 1 else 0) := by
        intro K
        rw [hperm.countP_eq, List.countP_cons, sameFaces_congr_right hkey]
      cases hm : matchEdgeFace faces rest0 keys with
      | none =>
        simp only [hm, Option.map_none, Option.isSome_none, Bool.false_eq_true, false_iff]
        intro hall
        have : (matchEdgeFace faces rest0 keys).isSome = true := by
          rw [matchEdgeFace_isSome_iff]
          intro K
          have := hall K
          rw [List.countP_cons, hcount K] at this
          omega
        simp [hm] at this
      | some w' =>
        simp only [hm, Option.map_some, Option.isSome_some, true_iff]
        intro K
        have hs : (matchEdgeFace faces rest0 keys).isSome = true := by rw [hm]; rfl
        have := (matchEdgeFace_isSome_iff (keys := keys) (unused := rest0)).mp hs K
        rw [List.countP_cons, hcount K]
        omega

theorem edgeFaceDescribes_iff {faces : List (List Int)} {ef : Table} :
    edgeFaceDescribes faces ef = true ↔
      ef.length = (makeEdgeNode faces).length ∧
      ∀ K : List Int, (ef.map compress).countP (fun k => sameFaces k K) ≤
        (makeEdgeNode faces).countP (fun e => sameFaces (sideFaces faces e) K) := by
  simp only [edgeFaceDescribes, Bool.and_eq_true, beq_iff_eq, matchEdgeFace_isSome_iff]

/-- **the derived edge table follows a supplied `edge_face` table that describes the sides**:
it is a renumbering of the mesh's own edges, stored (low, high), and the faces listed in row
`k` of the supplied table are exactly the faces that have edge `k` as a side. -/
theorem followEdgeFace_spec {faces : List (List Int)} {ef : Table} (hd : edgeFaceDescribes faces ef = true) :
    ∃ w : List Pair,
      makeEdgeNodeFollowingEdgeFace faces ef = some (w.map pairRow) ∧
      isRenumbering w (makeEdgeNode faces) = true ∧
      w.length = (makeEdgeNode faces).length ∧
      (∀ e ∈ w, e.1 ≤ e.2) ∧
      ∀ (k : Nat) e row, w[k]? = some e → ef[k]? = some row →
        ∀ x, x ∈ compress row ↔ x ∈ sideFaces faces e := by
  simp only [edgeFaceDescribes, Bool.and_eq_true, beq_iff_eq] at hd
  obtain ⟨hlen, hsome⟩ := hd
  obtain ⟨w, hw⟩ := Option.isSome_iff_exists.mp hsome
  obtain ⟨hwlen, ⟨rest, hperm⟩, hpt⟩ := matchEdgeFace_some hw
  have hwl : w.length = (makeEdgeNode faces).length := by simp [hwlen, hlen]
  have hrest : rest = [] := by
    have := hperm.length_eq
    simp only [List.length_append] at this
    exact List.length_eq_zero_iff.mp (by omega)
  subst hrest
  simp only [List.append_nil] at hperm
  have hmem : ∀ e, e ∈ w ↔ e ∈ makeEdgeNode faces := fun e => (hperm.mem_iff).symm
  have hnorm : ∀ e ∈ w, normPair e = e := by
    intro e he
    obtain ⟨f, _, p, _, hp⟩ := mem_makeEdgeNode.mp ((hmem e).mp he)
    rw [← hp]
    exact normPair_idem p
  have hmapnorm : w.map normPair = w := map_eq_self_of_forall hnorm
  refine ⟨w, ?_, ?_, hwl, ?_, ?_⟩
  · simp [makeEdgeNodeFollowingEdgeFace, hw, hwl]
  · simp only [isRenumbering, Bool.and_eq_true, decide_eq_true_eq, List.all_eq_true, List.contains_iff_mem]
    refine ⟨⟨?_, ?_⟩, ?_⟩
    · rw [hmapnorm]
      exact (hperm.nodup_iff).mp (nodup_makeEdgeNode faces)
    · intro e he
      rw [hnorm e he]
      exact (hmem e).mp he
    · intro e he
      rw [hmapnorm]
      exact (hmem e).mpr he
  · intro e he
    rw [← hnorm e he]
    exact normPair_le e
  · intro k e row hwk hrow x
    have hkey : (ef.map compress)[k]? = some (compress row) := by simp [hrow]
    have := sameFaces_iff.mp (hpt k e (compress row) hwk hkey) x
    exact this.symm

/-- more rows than the mesh has sides: the loop fails (the code returns its own numbering) -/
theorem followEdgeFace_too_many_rows {faces : List (List Int)} {ef : Table}
    (h : (makeEdgeNode faces).length < ef.length) : makeEdgeNodeFollowingEdgeFace faces ef = none := by
  simp only [makeEdgeNodeFollowingEdgeFace, Option.map_eq_none_iff]
  cases hm : matchEdgeFace faces (makeEdgeNode faces) (ef.map compress) with
  | none => rfl
  | some w =>
    obtain ⟨hwlen, ⟨rest, hperm⟩, _⟩ := matchEdgeFace_some hm
    have := hperm.length_eq
    simp only [List.length_append, List.length_map] at this hwlen
    omega

/-- fewer rows than sides, each finding its side: those rows are assigned, the others stay masked -/
theorem followEdgeFace_fewer_rows {faces : List (List Int)} {ef : Table} {tab : Table}
    (h : makeEdgeNodeFollowingEdgeFace faces ef = some tab) :
    tab.length = (makeEdgeNode faces).length ∧ ef.length ≤ (makeEdgeNode faces).length ∧
    (∀ k, k < ef.length → ∃ e ∈ makeEdgeNode faces, tab[k]? = some (pairRow e)) ∧
    (∀ k, ef.length ≤ k → k < (makeEdgeNode faces).length → tab[k]? = some maskedRow) := by
  simp only [makeEdgeNodeFollowingEdgeFace, Option.map_eq_some_iff] at h
  obtain ⟨w, hm, rfl⟩ := h
  obtain ⟨hwlen, ⟨rest, hperm⟩, _⟩ := matchEdgeFace_some hm
  have hl := hperm.length_eq
  simp only [List.length_append, List.length_map] at hl hwlen
  refine ⟨by simp; omega, by omega, ?_, ?_⟩
  · intro k hk
    have hkw : k < w.length := by omega
    refine ⟨w[k], (hperm.mem_iff).mpr (List.mem_append_left _ (List.getElem_mem _)), ?_⟩
    rw [List.getElem?_append_left (by simpa using hkw)]
    simp [hkw]
  · intro k hk hk2
    rw [List.getElem?_append_right (by simp; omega), List.getElem?_replicate]
    simp
    omega

/-! ### the supplied table is the table the code would derive from the derived edges -/

/-- a renumbering of the own edges has no repeated edge and contains every side of the mesh -/
theorem isRenumbering_cover {w : List Pair} {faces : List (List Int)}
    (h : isRenumbering w (makeEdgeNode faces) = true) :
    (w.map normPair).Nodup ∧
    (∀ f ∈ faces, ∀ p ∈ facePairs f, ∃ e ∈ w, normPair e = normPair p) ∧
    (∀ e ∈ w, ∃ f ∈ faces, ∃ p ∈ facePairs f, normPair p = normPair e) := by
  simp only [isRenumbering, Bool.and_eq_true, decide_eq_true_eq, List.all_eq_true, List.contains_iff_mem] at h
  obtain ⟨⟨hnd, hsub⟩, hsup⟩ := h
  refine ⟨hnd, ?_, ?_⟩
  · intro f hf p hp
    have := hsup (normPair p) (mem_makeEdgeNode.mpr ⟨f, hf, p, hp, rfl⟩)
    obtain ⟨e, he, hn⟩ := List.mem_map.mp this
    exact ⟨e, he, hn⟩
  · intro e he
    exact mem_makeEdgeNode.mp (hsub e he)

/-- an accepted numbering is used as it is -/
theorem derivedEdges_of_isRenumbering {w : List Pair} {faces : List (List Int)}
    (h : isRenumbering w (makeEdgeNode faces) = true) : TopoIn.derivedEdges (some w) faces = w := by
  simp [TopoIn.derivedEdges, h]

theorem faceEdgeShaped_spec {w : Nat} {faces : List (List Int)} {fe : Table}
    (h : faceEdgeShaped w faces fe = true) :
    fe.length = faces.length ∧
    ∀ (i : Nat) f row, faces[i]? = some f → fe[i]? = some row →
      row.length = w ∧ row = pad w (compress row) ∧ (compress row).length = f.length ∧
      ∀ v ∈ compress row, 0 ≤ v := by
  simp only [faceEdgeShaped, Bool.and_eq_true, beq_iff_eq, List.all_eq_true, decide_eq_true_eq] at h
  obtain ⟨hlen, hall⟩ := h
  refine ⟨hlen, ?_⟩
  intro i f row hf hrow
  have hmem : (f, row) ∈ faces.zip fe :=
    List.mem_iff_getElem?.mpr ⟨i, List.getElem?_zip_eq_some.mpr ⟨hf, hrow⟩⟩
  obtain ⟨⟨⟨h1, h2⟩, h3⟩, h4⟩ := hall _ hmem
  exact ⟨h1, h2, h3, h4⟩

/-- a supplied `face_edge` table of the usual layout, followed by the derived edge table `en`,
is exactly the table `make_face_edge_array` derives from `en` -/
theorem makeFaceEdge_eq_supplied {w : Nat} {faces : List (List Int)} {fe : Table} {en : List Pair}
    (hshape : faceEdgeShaped w faces fe = true)
    (hnd : (en.map normPair).Nodup)
    (hfollow : ∀ fi c p, IsSide faces fi c p →
      ∃ k, writeTarget (makeEdgeNode faces).length fe fi c = some k ∧ en[k]? = some (normPair p)) :
    makeFaceEdge w en faces = .ok fe := by
  obtain ⟨hlen, hrows⟩ := faceEdgeShaped_spec hshape
  have hcover : ∀ f ∈ faces, ∀ p ∈ facePairs f, ∃ e ∈ en, normPair e = normPair p := by
    intro f hf p hp
    obtain ⟨fi, hfi⟩ := List.mem_iff_getElem?.mp hf
    obtain ⟨c, hc⟩ := List.mem_iff_getElem?.mp hp
    obtain ⟨k, _, hk⟩ := hfollow fi c p ⟨f, hfi, hc⟩
    exact ⟨normPair p, List.mem_of_getElem? hk, normPair_idem p⟩
  have hw : ∀ f ∈ faces, f.length ≤ w := by
    intro f hf
    obtain ⟨fi, hfi⟩ := List.mem_iff_getElem?.mp hf
    have hfi' : fi < fe.length := by
      have := (List.getElem?_eq_some_iff.mp hfi).1
      omega
    obtain ⟨h1, h2, h3, _⟩ := hrows fi f fe[fi] hfi (List.getElem?_eq_getElem hfi')
    have h4 : (compress fe[fi]).length ≤ fe[fi].length := by
      simp only [compress]; exact List.length_filterMap_le _ _
    omega
  obtain ⟨fe', hfe', hlen', hspec⟩ := makeFaceEdge_spec w en faces hcover hw
  rw [hfe']
  congr 1
  apply List.ext_getElem?
  intro i
  by_cases hi : i < faces.length
  · obtain ⟨row', hrow', hl', hin, hout⟩ := hspec i hi
    have hi2 : i < fe.length := by omega
    obtain ⟨h1, h2, h3, h4⟩ := hrows i faces[i] fe[i] (List.getElem?_eq_getElem hi) (List.getElem?_eq_getElem hi2)
    rw [hrow', List.getElem?_eq_getElem hi2]
    congr 1
    apply List.ext_getElem?
    intro c
    by_cases hc : c < faces[i].length
    · have hc' : c < (facePairs faces[i]).length := by simpa [length_facePairs] using hc
      obtain ⟨k, hk, hklt, hkn⟩ := hin c hc'
      have hcc : c < (compress fe[i]).length := by omega
      have hcell : fe[i][c]? = some (some (compress fe[i])[c]) := by
        have : fe[i][c]? = (pad w (compress fe[i]))[c]? := congrArg (fun r => r[c]?) h2
        rw [this, getElem?_pad_lt hcc]
      have hside : IsSide faces i c (facePairs faces[i])[c] :=
        ⟨faces[i], List.getElem?_eq_getElem hi, List.getElem?_eq_getElem hc'⟩
      obtain ⟨k2, ht, hk2⟩ := hfollow i c _ hside
      have hnn : 0 ≤ (compress fe[i])[c] := h4 _ (List.getElem_mem _)
      have hv : (compress fe[i])[c] = (k2 : Int) := by
        simp only [writeTarget, cellOf, List.getElem?_eq_getElem hi2, Option.bind_some, hcell] at ht
        exact numpyIndex_of_nonneg ht hnn
      have hk2lt : k2 < en.length := (List.getElem?_eq_some_iff.mp hk2).1
      have hkk : k = k2 := by
        have e1 : (en.map normPair)[k]'(by simpa) = (en.map normPair)[k2]'(by simpa) := by
          have : en[k2] = normPair (facePairs faces[i])[c] := by
            have := List.getElem?_eq_getElem hk2lt
            rw [this] at hk2
            exact Option.some.inj hk2
          simp [hkn, this, normPair_idem]
        exact (List.getElem_inj hnd).mp e1
      rw [hk, hcell, hv, hkk]
    · by_cases hcw : c < w
      · rw [hout c (by omega) hcw, h2]
        exact (getElem?_pad_ge (by omega) hcw).symm
      · rw [List.getElem?_eq_none_iff.mpr (by omega), List.getElem?_eq_none_iff.mpr (by omega)]
  · rw [List.getElem?_eq_none_iff.mpr (by omega), List.getElem?_eq_none_iff.mpr (by omega)]

theorem faceEdgeShaped_width {w : Nat} {faces : List (List Int)} {fe : Table}
    (hshape : faceEdgeShaped w faces fe = true) : ∀ f ∈ faces, f.length ≤ w := by
  obtain ⟨hlen, hrows⟩ := faceEdgeShaped_spec hshape
  intro f hf
  obtain ⟨fi, hfi⟩ := List.mem_iff_getElem?.mp hf
  have hfi' : fi < fe.length := by
    have := (List.getElem?_eq_some_iff.mp hfi).1
    omega
  obtain ⟨h1, h2, h3, _⟩ := hrows fi f fe[fi] hfi (List.getElem?_eq_getElem hfi')
  have h4 : (compress fe[fi]).length ≤ fe[fi].length := by
    simp only [compress]; exact List.length_filterMap_le _ _
  omega

theorem isSide_of_lt {faces : List (List Int)} {fi c : Nat} (hfi : fi < faces.length)
    (hc : c < (facePairs faces[fi]).length) : IsSide faces fi c (facePairs faces[fi])[c] :=
  ⟨faces[fi], List.getElem?_eq_getElem hfi, List.getElem?_eq_getElem hc⟩

theorem isSide_lt {faces : List (List Int)} {fi c : Nat} {p : Pair} (h : IsSide faces fi c p) :
    ∃ (hfi : fi < faces.length) (hc : c < (facePairs faces[fi]).length), p = (facePairs faces[fi])[c] := by
  obtain ⟨f, hf, hp⟩ := h
  obtain ⟨hfi, rfl⟩ := List.getElem?_eq_some_iff.mp hf
  obtain ⟨hc, rfl⟩ := List.getElem?_eq_some_iff.mp hp
  exact ⟨hfi, hc, rfl⟩

theorem writeTarget_some {n : Nat} {fe : Table} {fi c k : Nat} (h : writeTarget n fe fi c = some k) :
    ∃ v, cellOf fe fi c = some (some v) ∧ numpyIndex n v = some k := by
  unfold writeTarget at h
  split at h
  · rename_i v hv; exact ⟨v, hv, h⟩
  · simp at h

theorem writeTarget_none {n : Nat} {fe : Table} {fi c : Nat} :
    writeTarget n fe fi c = none ↔
      cellOf fe fi c = none ∨ cellOf fe fi c = some none ∨
        ∃ v, cellOf fe fi c = some (some v) ∧ (v < -(n : Int) ∨ (n : Int) ≤ v) := by
  unfold writeTarget
  cases hcell : cellOf fe fi c with
  | none => simp
  | some o =>
    cases o with
    | none => simp
    | some v =>
      simp only [reduceCtorEq, Option.some.injEq, exists_eq_left', false_or]
      unfold numpyIndex
      split
      · simp; omega
      · split
        · simp; omega
        · simp; omega

/-- the derivation succeeds exactly when every side has a target row -/
theorem followFaceEdge_error_iff {faces : List (List Int)} {fe : Table} :
    makeEdgeNodeFollowingFaceEdge faces fe = .error .index ↔
      ∃ fi c p, IsSide faces fi c p ∧ writeTarget (makeEdgeNode faces).length fe fi c = none := by
  simp only [makeEdgeNodeFollowingFaceEdge]
  cases hws : faceEdgeWrites (makeEdgeNode faces).length faces fe with
  | some ws =>
    simp only [reduceCtorEq, false_iff, not_exists, not_and]
    intro fi c p hs ht
    obtain ⟨i, hi, _⟩ := writeTarget_isSome hws hs
    rw [ht] at hi
    simp at hi
  | none =>
    simp only [true_iff]
    apply Classical.byContradiction
    intro hno
    have hall : ∀ x ∈ (faces.zipIdx.flatMap fun ff => faceWrites (makeEdgeNode faces).length fe ff.1 ff.2),
        x.isSome := by
      intro x hx
      obtain ⟨fi, c, p, hs, rfl⟩ := mem_faceEdgeWrites_raw.mp hx
      cases ht : writeTarget (makeEdgeNode faces).length fe fi c with
      | none => exact absurd ⟨fi, c, p, hs, ht⟩ hno
      | some i => simp
    have := optAll_isSome_of_forall _ hall
    simp [faceEdgeWrites] at hws
    simp [hws] at this

end Ems.Mesh
