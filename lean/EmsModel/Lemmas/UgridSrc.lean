import EmsModel.Core.UgridSrc
import EmsModel.Lemmas.MeshMask
/-! Lemmas about the expression language of `Core/UgridSrc.lean`: the list functions the evaluator uses
(`sortL`, `setItems`, `gather`, `iter`, `compressTable`) against those of the hand model (`sortU`, `scatter`,
`List.filter`, `bufferIter`, `flatMap faceNodes`).  Core Lean only. -/
set_option linter.unusedSimpArgs false
namespace Ems.UgridSrc
open Ems.Clip

/-! ### `numpy.sort` -/

theorem insertL_perm (x : Nat) : ∀ l : List Nat, (insertL x l).Perm (x :: l)
  | [] => by simp [insertL]
  | y :: ys => by
    unfold insertL
    split
    · exact List.Perm.refl _
    · exact ((insertL_perm x ys).cons y).trans (List.Perm.swap x y ys)

theorem sortL_perm : ∀ l : List Nat, (sortL l).Perm l
  | [] => by simp [sortL]
  | x :: xs => by
    have : sortL (x :: xs) = insertL x (sortL xs) := rfl
    rw [this]
    exact (insertL_perm x _).trans ((sortL_perm xs).cons x)

theorem mem_sortL (l : List Nat) (x : Nat) : x ∈ sortL l ↔ x ∈ l := (sortL_perm l).mem_iff

theorem sorted_insertL (x : Nat) : ∀ l : List Nat, l.Pairwise (· ≤ ·) → (insertL x l).Pairwise (· ≤ ·)
  | [], _ => by simp [insertL]
  | y :: ys, h => by
    unfold insertL
    rw [List.pairwise_cons] at h
    split
    · rename_i hxy
      rw [List.pairwise_cons]
      refine ⟨?_, List.pairwise_cons.mpr h⟩
      intro a ha
      rcases List.mem_cons.mp ha with rfl | ha
      · exact hxy
      · exact Nat.le_trans hxy (h.1 a ha)
    · rename_i hxy
      rw [List.pairwise_cons]
      refine ⟨?_, sorted_insertL x ys h.2⟩
      intro a ha
      rcases List.mem_cons.mp ((insertL_perm x ys).mem_iff.mp ha) with rfl | ha
      · omega
      · exact h.1 a ha

theorem sorted_sortL : ∀ l : List Nat, (sortL l).Pairwise (· ≤ ·)
  | [] => by simp [sortL]
  | x :: xs => sorted_insertL x _ (sorted_sortL xs)

/-- sorting a list without repeats gives the strictly ascending list of its members: `numpy.sort` of what the
spatial index returns is `sort(unique(…))` -/
theorem sortL_eq_sortU {l : List Nat} (h : l.Nodup) : sortL l = sortU l := by
  apply sorted_ext _ _ _ (sorted_sortU l)
  · intro x; rw [mem_sortL, mem_sortU]
  · have hn : (sortL l).Nodup := (sortL_perm l).nodup_iff.mpr h
    have hs := sorted_sortL l
    have := List.Pairwise.and hs hn
    exact this.imp (fun ⟨h1, h2⟩ => Nat.lt_of_le_of_ne h1 h2)

/-- sorting an ascending list changes nothing: `numpy.sort(numpy.unique(x))` is `numpy.unique(x)` -/
theorem sortL_of_sorted : ∀ (l : List Nat), l.Pairwise (· < ·) → sortL l = l
  | [], _ => rfl
  | x :: xs, h => by
    rw [List.pairwise_cons] at h
    have : sortL (x :: xs) = insertL x (sortL xs) := rfl
    rw [this, sortL_of_sorted xs h.2]
    cases xs with
    | nil => rfl
    | cons y ys =>
      have : x ≤ y := Nat.le_of_lt (h.1 y (by simp))
      simp [insertL, this]

theorem sortL_sortU (l : List Nat) : sortL (sortU l) = sortU l := sortL_of_sorted _ (sorted_sortU l)

/-! ### `a[i] = numpy.arange(len(i))` -/

theorem setItems_range' : ∀ (es : List Nat) (acc : MRow) (k : Nat),
    setItems acc es (List.range' k es.length) = scatter acc es k
  | [], acc, k => by simp [setItems, scatter]
  | e :: es, acc, k => by
    simp only [List.length_cons, List.range'_succ, setItems, scatter]
    exact setItems_range' es _ _

theorem setItems_range (es : List Nat) (acc : MRow) :
    setItems acc es (List.range es.length) = scatter acc es 0 := by
  rw [List.range_eq_range']; exact setItems_range' es acc 0

/-! ### generators -/

theorem gather_map (p : Nat → Bool) : ∀ l : List Nat,
    gather (l.map fun i => (UVal.bool (p i), UVal.nat i)) = some (l.filter p)
  | [] => rfl
  | i :: is => by
    simp only [List.map_cons, gather, gather_map p is, List.filter_cons]
    cases p i <;> simp

/-! ### rows and tables -/

theorem getD_map_compressRow (T : MTable) (f : Nat) :
    (T.map compressRow).getD f [] = compressRow (T.getD f []) := by
  simp only [List.getD_eq_getElem?_getD, List.getElem?_map]
  cases T[f]? <;> simp [compressRow]

theorem compressTable_takeRows (T : MTable) (I : List Nat) :
    compressTable (I.map fun k => T.getD k []) = I.flatMap fun k => (T.map compressRow).getD k [] := by
  unfold compressTable
  rw [List.flatMap_map]
  congr 1
  funext k
  exact (getD_map_compressRow T k).symm


/-! ### values -/

theorem orVal_bool (a b : Bool) : orVal (.bool a) (.bool b) = .bool (a || b) := by cases a <;> rfl

theorem andVal_bool (a b : Bool) : andVal (.bool a) (.bool b) = .bool (a && b) := by cases a <;> rfl

/-- `bool(S.intersection(R))` for a set `S` with the members of `I`: some element of `R` is in `I` -/
theorem inter_nonempty (S R I : List Nat) (h : ∀ n, n ∈ S ↔ n ∈ I) :
    (!(S.filter fun n => R.contains n).isEmpty) = R.any fun n => I.contains n := by
  rw [Bool.eq_iff_iff]
  simp only [Bool.not_eq_true', List.isEmpty_eq_false_iff_exists_mem, List.mem_filter, List.contains_iff_mem,
    List.any_eq_true, h]
  constructor
  · rintro ⟨n, h1, h2⟩; exact ⟨n, h2, h1⟩
  · rintro ⟨n, h1, h2⟩; exact ⟨n, h2, h1⟩

/-! ### the evaluator, one level at a time -/

theorem evalProg_withArg (env : UEnv) (a : UExpr) (p : UProg) :
    evalProg env (.withArg a p) = evalProg { env with arg := eval env a } p := rfl

theorem eval_withArg (env : UEnv) (a b : UExpr) :
    eval env (.withArg a b) = eval { env with arg := eval env a } b := by
  rw [eval]

theorem eval_iterate (env : UEnv) (c b i : UExpr) :
    eval env (.iterate c b i) =
      iterateVal (rangeCount (eval env c)) (fun v => eval { env with carried := v } b) (eval env i) := by
  rw [eval]

/-! ### the mesh an environment describes -/

/-- The hand model's mesh for an environment: rows compressed; the edge count is present iff the topology has an
edge dimension. -/
def envMesh (env : UEnv) : FaceMesh :=
  { nNodes := env.nNodes, faces := env.faceNode.map compressRow,
    nEdges := if env.hasEdge then some env.nEdges else none, faceEdges := env.faceEdge.map compressRow }

theorem envMesh_meshEnv (T E : MTable) (nNodes : Nat) (nEdges : Option Nat) (hits : List Nat) (buffer : Int) :
    envMesh (meshEnv T E nNodes nEdges hits buffer) = meshOf T E nNodes nEdges := by
  cases nEdges <;> rfl

theorem mem_getD_map_compressRow {T : MTable} {f n : Nat} (h : n ∈ (T.map compressRow).getD f []) :
    ∃ r ∈ T, n ∈ compressRow r := by
  rw [getD_map_compressRow] at h
  by_cases hf : f < T.length
  · refine ⟨T[f], List.getElem_mem hf, ?_⟩
    simpa [List.getD_eq_getElem?_getD, List.getElem?_eq_getElem hf] using h
  · have : T.getD f [] = [] := by
      simp [List.getD_eq_getElem?_getD, List.getElem?_eq_none (Nat.le_of_not_lt hf)]
    rw [this] at h
    simp [compressRow] at h

/-! ### loops -/

theorem iter_succ' (f : UVal → UVal) : ∀ (n : Nat) (v : UVal), iter f (n + 1) v = f (iter f n v)
  | 0, v => rfl
  | n + 1, v => by
    show iter f (n + 1) (f v) = _
    rw [iter_succ' f n (f v)]
    rfl

end Ems.UgridSrc
