import EmsModel.Lemmas.DepthSpec
import EmsModel.Core.DepthSrc
import Mathlib.Algebra.Order.Field.Rat
import Mathlib.Tactic.Linarith
/-!
Lemmas/DepthSrcNorm.lean — facts about the interpreter of the statement language of `Core/DepthSrc.lean`
(`NStmt.run`) and about the dataset effects it performs, in terms of the hand model of
`Core/Depth.lean` (`modify`, `negVar`, `guessDown`, `vgt`, …).  Nothing here mentions a generated term.
-/
namespace Ems.DepthSrc

open Ems Ems.Depth

/-! ### blocks -/

theorem runBlock_append (cx : NCtx) : ∀ (l1 l2 : List NStmt) (st : NState),
    NStmt.runBlock cx st (l1 ++ l2) =
      match NStmt.runBlock cx st l1 with
      | .done s => NStmt.runBlock cx s l2
      | r => r
  | [], l2, st => by simp [NStmt.runBlock]
  | s :: l1, l2, st => by
    simp only [List.cons_append, NStmt.runBlock]
    cases h : NStmt.run cx st s with
    | done st' => simp only []; exact runBlock_append cx l1 l2 st'
    | raised e s' => simp

/-! ### values -/

theorem vmul_neg_one (x : Val) : vmul (some (-1)) x = vneg x := by
  cases x <;> simp [vmul, vneg]

theorem vmul_neg_one_fun : vmul (some (-1)) = vneg := funext vmul_neg_one

theorem cmpScalar_gt_zero (x : Val) : cmpScalar .gt x (some 0) = vpos x := by
  cases x <;> simp [cmpScalar, vpos]

theorem cmpScalar_gt (x y : Val) : cmpScalar .gt x y = vgt x y := by
  cases x <;> cases y <;> simp [cmpScalar, vgt]

theorem vgt_zero (x : Val) : vgt x (some 0) = vpos x := by
  cases x <;> simp [vgt, vpos]

theorem cmpScalar_ne_some (a b : Rat) : cmpScalar .ne (some a) (some b) = decide (a ≠ b) := rfl
theorem cmpScalar_eq_some (a b : Rat) : cmpScalar .eq (some a) (some b) = decide (a = b) := rfl

theorem natCast_succ_ne_zero (n : Nat) : ¬ ((n : Rat) + 1 = 0) := Nat.cast_add_one_ne_zero n

theorem maskSelect_map (p : Val → Bool) : ∀ l : List Val, maskSelect l (l.map p) = l.filter p
  | [] => rfl
  | x :: xs => by
    simp only [List.map_cons, maskSelect, List.filter_cons, maskSelect_map p xs]

/-- `positive_values > total_values / 2` is the hand model's majority guess -/
theorem guess_eq (l : List Val) :
    cmpScalar .gt (some ((l.filter vpos).length : Rat)) (some ((l.length : Rat) / 2)) = guessDown l := by
  simp only [cmpScalar, guessDown]
  have h : ((l.length : Rat) / 2 < ((l.filter vpos).length : Rat)) ↔ l.length < 2 * (l.filter vpos).length := by
    rw [div_lt_iff₀ (by norm_num : (0 : Rat) < 2)]
    constructor
    · intro hh
      have : ((l.length : Nat) : Rat) < (((l.filter vpos).length * 2 : Nat) : Rat) := by push_cast; exact hh
      have := Nat.cast_lt.mp this
      omega
    · intro hh
      have : ((l.length : Nat) : Rat) < (((l.filter vpos).length * 2 : Nat) : Rat) := Nat.cast_lt.mpr (by omega)
      push_cast at this; exact this
  simp only [h]

theorem guess_eq_vgt (l : List Val) :
    vgt (some ((l.filter vpos).length : Rat)) (some ((l.length : Rat) / 2)) = guessDown l := by
  rw [← cmpScalar_gt, guess_eq]

theorem intercalate_two (a b : String) : ":".intercalate [a, b] = a ++ ":" ++ b := rfl

/-! ### datasets with unique names -/

/-- the names of the variables of a dataset are pairwise different (`xarray`: a mapping) -/
def Names (ds : Dataset) : Prop := (ds.vars.map (·.name)).Nodup

theorem names_mapVars (ds : Dataset) (g : Var → Var) (hg : ∀ v, (g v).name = v.name) (h : Names ds) :
    Names (ds.mapVars g) := by
  unfold Names Dataset.mapVars
  simp only [List.map_map]
  have : ((fun v : Var => v.name) ∘ g) = (fun v : Var => v.name) := by funext v; simp [hg]
  rw [this]; exact h

theorem eq_of_find (ds : Dataset) (h : Names ds) (n : String) (v0 : Var) (hf : ds.find n = some v0)
    (v : Var) (hv : v ∈ ds.vars) (hn : v.name = n) : v = v0 := by
  have := find_of_mem ds h v hv
  rw [hn, hf] at this
  exact (Option.some.inj this).symm

/-- with unique names, rewriting "the variable called `n`" with a function of the found variable is
`modify` -/
theorem modify_of_find (ds : Dataset) (h : Names ds) (n : String) (v0 : Var) (hf : ds.find n = some v0)
    (f g : Var → Var) (hfg : f v0 = g v0) : ds.modify n f = ds.modify n g := by
  rw [modify_eq_mapVars, modify_eq_mapVars]
  apply mapVars_congr
  intro v hv
  by_cases hn : v.name = n
  · rw [if_pos hn, if_pos hn, eq_of_find ds h n v0 hf v hv hn, hfg]
  · rw [if_neg hn, if_neg hn]

theorem modify_of_find_none (ds : Dataset) (n : String) (hf : ds.find n = none) (f : Var → Var) :
    ds.modify n f = ds := by
  rw [modify_eq_mapVars]
  apply mapVars_id
  intro v hv
  have := List.find?_eq_none.mp hf v hv
  have hne : v.name ≠ n := by simpa using this
  rw [if_neg hne]

theorem find_modify (ds : Dataset) (n m : String) (f : Var → Var) (hf : ∀ v, (f v).name = v.name) :
    (ds.modify n f).find m = (ds.find m).map (fun v => if v.name = n then f v else v) := by
  rw [modify_eq_mapVars]
  apply find_mapVars
  intro v; by_cases h : v.name = n <;> simp [h, hf]

theorem names_modify (ds : Dataset) (n : String) (f : Var → Var) (hf : ∀ v, (f v).name = v.name) (h : Names ds) :
    Names (ds.modify n f) := by
  rw [modify_eq_mapVars]
  apply names_mapVars _ _ _ h
  intro v; by_cases hh : v.name = n <;> simp [hh, hf]

/-- a variable rebuilt from its own negated values, attributes and encoding is `negVar` of it -/
theorem rebuilt_self (v : Var) (c : Bool) (hc : c = v.isCoord) :
    rebuilt v (v.data.map vneg) c (some v) (some v) = negVar v := by
  subst hc
  cases v
  simp [rebuilt, negVar, joinExtra]

/-! ### what every step of the normalisation keeps of a variable -/

/-- a per-variable rewrite that keeps name, dimensions, `bounds` attribute and coordinate status -/
def Keeps (g : Var → Var) : Prop :=
  ∀ v, (g v).name = v.name ∧ (g v).dims = v.dims ∧ (g v).bounds = v.bounds ∧ (g v).isCoord = v.isCoord

theorem keeps_id : Keeps id := fun _ => ⟨rfl, rfl, rfl, rfl⟩

theorem keeps_comp (g1 g2 : Var → Var) (h1 : Keeps g1) (h2 : Keeps g2) : Keeps (g2 ∘ g1) := by
  intro v
  obtain ⟨a1, b1, c1, d1⟩ := h1 v
  obtain ⟨a2, b2, c2, d2⟩ := h2 (g1 v)
  exact ⟨a2.trans a1, b2.trans b1, c2.trans c1, d2.trans d1⟩

theorem keeps_if (n : String) (f : Var → Var) (hf : Keeps f) : Keeps (fun v => if v.name = n then f v else v) := by
  intro v
  by_cases h : v.name = n
  · simp only [if_pos h]; exact hf v
  · simp [if_neg h]

theorem keeps_negVar : Keeps negVar := fun _ => ⟨rfl, rfl, rfl, rfl⟩
theorem keeps_setPositive (s : String) : Keeps (Var.setPositive s) := fun _ => ⟨rfl, rfl, rfl, rfl⟩
theorem keeps_revVar (sz : String → Nat) (d : String) : Keeps (revVar sz d) :=
  fun v => ⟨revVar_name sz d v, revVar_dims sz d v, revVar_bounds sz d v, revVar_isCoord sz d v⟩

theorem withPositive_mapVars (pd : Option Bool) (ds : Dataset) (n : String) :
    ∃ g, Keeps g ∧ withPositive pd ds n = ds.mapVars g := by
  cases pd with
  | none => exact ⟨id, keeps_id, (mapVars_id ds id (fun _ _ => rfl)).symm⟩
  | some b => exact ⟨_, keeps_if n _ (keeps_setPositive _), modify_eq_mapVars _ _ _⟩

theorem flipSign_mapVars (ds : Dataset) (n : String) : ∃ g, Keeps g ∧ flipSign ds n = ds.mapVars g := by
  unfold flipSign
  simp only []
  cases ((ds.modify n negVar).find n).bind (·.bounds) with
  | none => exact ⟨_, keeps_if n _ keeps_negVar, modify_eq_mapVars _ _ _⟩
  | some bn =>
    refine ⟨_, keeps_comp _ _ (keeps_if n _ keeps_negVar) (keeps_if bn _ keeps_negVar), ?_⟩
    simp only []
    rw [modify_eq_mapVars, modify_eq_mapVars, mapVars_mapVars]

theorem reverseAlong_mapVars (ds : Dataset) (d : String) : ∃ g, Keeps g ∧ ds.reverseAlong d = ds.mapVars g :=
  ⟨_, keeps_revVar ds.sz d, reverseAlong_eq_mapVars ds d⟩

/-- one iteration of the hand model rewrites every variable with a `Keeps` function -/
theorem normStep_mapVars (orig new : Dataset) (pd dts : Option Bool) (c : String) (new' : Dataset) (w : List String)
    (h : normStep orig pd dts new c = some (new', w)) : ∃ g, Keeps g ∧ new' = new.mapVars g := by
  unfold normStep at h
  cases ho : orig.find c with
  | none => simp [ho] at h
  | some cvar =>
    simp only [ho] at h
    rcases hd : cvar.dims with _ | ⟨dim, _ | ⟨d2, rest⟩⟩
    · simp [hd] at h
    · simp only [hd] at h
      obtain ⟨g1, hg1, e1⟩ := withPositive_mapVars pd new c
      -- the dataset after the sign step
      have h2 : ∃ g2, Keeps g2 ∧
          (if wantFlip pd (signDown cvar) = true then flipSign (withPositive pd new c) c else withPositive pd new c)
            = new.mapVars g2 := by
        by_cases hw : wantFlip pd (signDown cvar) = true
        · rw [if_pos hw]
          obtain ⟨g, hg, e⟩ := flipSign_mapVars (withPositive pd new c) c
          exact ⟨_, keeps_comp _ _ hg1 hg, by rw [e, e1, mapVars_mapVars]⟩
        · rw [if_neg hw]; exact ⟨g1, hg1, e1⟩
      obtain ⟨g2, hg2, e2⟩ := h2
      rw [e2] at h
      cases dts with
      | none =>
        simp only [Option.some.injEq, Prod.mk.injEq] at h
        exact ⟨g2, hg2, h.1.symm⟩
      | some t =>
        simp only [] at h
        cases hdf : ((new.mapVars g2).find c).bind fun v =>
            deepFirst (if wantFlip pd (signDown cvar) = true then !signDown cvar else signDown cvar) v.data with
        | none => simp [hdf] at h
        | some dds =>
          simp only [hdf, Option.some.injEq, Prod.mk.injEq] at h
          by_cases hr : (dds != t) = true
          · rw [if_pos hr] at h
            obtain ⟨g, hg, e⟩ := reverseAlong_mapVars (new.mapVars g2) dim
            exact ⟨_, keeps_comp _ _ hg2 hg, by rw [← h.1, e, mapVars_mapVars]⟩
          · rw [if_neg hr] at h
            exact ⟨g2, hg2, h.1.symm⟩
    · simp [hd] at h

theorem negVar_name (v : Var) : (negVar v).name = v.name := rfl
theorem setPositive_name (s : String) (v : Var) : (Var.setPositive s v).name = v.name := rfl

end Ems.DepthSrc
