import EmsModel.Core.TimeUnits
import EmsModel.Lemmas.TimeUnits
/-!
Lemmas/TimeUnitsSpell.lean — the family of spellings the property quantifies over
("written with or without `T` separators and seconds", offsets as `±HH:MM`, `±HHMM`, `±HH`, `Z` or
absent, attached or after a blank) and the fact that cftime's grammar reads every one of them as the
same fields and offset.  Core Lean only.
-/
namespace Ems.TimeUnits

inductive TzStyle | colon | compact | hours | zulu | none
deriving DecidableEq, Repr

structure Spelling where
  /-- the character between date and time: `T`, a blank, or anything but a newline -/
  sep : Char
  /-- is `:SS` written -/
  seconds : Bool
  tz : TzStyle
  /-- a blank before the offset -/
  tzsep : Bool
deriving Repr

def signChar (off : Int) : Char := if off < 0 then '-' else '+'

def tzText (off : Int) : TzStyle → Str
  | .colon => formatOffset off
  | .compact => signChar off :: (pad2 (off.natAbs / 60) ++ pad2 (off.natAbs % 60))
  | .hours => signChar off :: pad2 (off.natAbs / 60)
  | .zulu => ['Z']
  | .none => []

/-- a spelling can express these fields and this offset -/
structure Spelling.Ok (sp : Spelling) (f : Fields) (off : Int) : Prop where
  sep : sp.sep ≠ '\n'
  sec : sp.seconds = false → f.second = 0
  hours : sp.tz = .hours → off.natAbs % 60 = 0
  utc : sp.tz = .zulu ∨ sp.tz = .none → off = 0

def tzPart (off : Int) (sp : Spelling) : Str :=
  (if sp.tzsep && sp.tz != .none then [' '] else []) ++ tzText off sp.tz

def spellDate (f : Fields) (off : Int) (sp : Spelling) : Str :=
  pad4 f.year.toNat ++ '-' :: (pad2 f.month ++ '-' :: (pad2 f.day ++ sp.sep :: (pad2 f.hour ++ ':' ::
    (pad2 f.minute ++ ((if sp.seconds then ':' :: pad2 f.second else []) ++ tzPart off sp)))))

def spellUnits (p : Str) (f : Fields) (off : Int) (sp : Spelling) : Str :=
  p ++ ' ' :: (since ++ ' ' :: spellDate f off sp)

/-! ### offsets in the other styles -/

theorem tzMinutes_pad2 (n : Nat) (hn : n < 100) (r : Str) : tzMinutes (pad2 n ++ r) = (n, r) := by
  have h1 : dch (n / 10) ≠ ':' := dch_ne _ _ (by decide)
  have := two_pad2 n hn r
  simp only [pad2, List.cons_append, List.nil_append] at this ⊢
  simp [tzMinutes, h1, this]

theorem signChar_cases (off : Int) : signChar off = '+' ∨ signChar off = '-' := by
  unfold signChar; by_cases h : off < 0 <;> simp [h]

theorem parseTz_sign (off : Int) (h mm : Nat) (hh : h < 100) (r r2 : Str)
    (hmin : tzMinutes r = (mm, r2)) (htot : off.natAbs = h * 60 + mm) :
    parseTz (signChar off :: (pad2 h ++ r)) = some (off, r2) := by
  unfold signChar
  by_cases hneg : off < 0
  · simp [hneg, parseTz, two_pad2 h hh, hmin]; omega
  · simp [hneg, parseTz, two_pad2 h hh, hmin]; omega

theorem parseOffset_compact (off : Int) (h : off.natAbs < 1440) :
    parseOffset (tzText off .compact) = some off := by
  have := parseTz_sign off (off.natAbs / 60) (off.natAbs % 60) (by omega) (pad2 (off.natAbs % 60)) []
    (by have := tzMinutes_pad2 (off.natAbs % 60) (by omega) []; simpa using this) (by omega)
  simp [parseOffset, tzText, this]

theorem parseOffset_hours (off : Int) (h : off.natAbs < 1440) (h0 : off.natAbs % 60 = 0) :
    parseOffset (tzText off .hours) = some off := by
  have := parseTz_sign off (off.natAbs / 60) 0 (by omega) [] [] (by simp [tzMinutes]) (by omega)
  simp only [List.append_nil] at this
  simp [parseOffset, tzText, this]

theorem parseOffset_digit (k : Nat) (r : Str) : parseOffset (dch k :: r) = none := by
  have h1 : dch k ≠ 'Z' := dch_ne _ _ (by decide)
  have h2 : dch k ≠ '+' := dch_ne _ _ (by decide)
  have h3 : dch k ≠ '-' := dch_ne _ _ (by decide)
  simp [parseOffset, parseTz, h1, h2, h3]

theorem signChar_ne_nl (off : Int) : signChar off ≠ '\n' := by
  rcases signChar_cases off with h | h <;> rw [h] <;> decide

/-- the timezone group reads every style, attached or after a blank -/
theorem parseTzGroup_tzPart (off : Int) (hoff : off.natAbs < 1440) (sp : Spelling)
    (hh : sp.tz = .hours → off.natAbs % 60 = 0) (hu : sp.tz = .zulu ∨ sp.tz = .none → off = 0) :
    (parseTzGroup (tzPart off sp)).getD 0 = off := by
  obtain ⟨sep, seconds, tz, tzsep⟩ := sp
  have hc := parseOffset_formatOffset off hoff
  have hc' : parseOffset (signChar off :: (pad2 (off.natAbs / 60) ++ ':' :: pad2 (off.natAbs % 60))) = some off :=
    parseOffset_formatOffset off hoff
  have hk := parseOffset_compact off hoff
  have hnl := signChar_ne_nl off
  cases tz <;> cases tzsep <;> simp only [tzPart, Bool.false_and, Bool.true_and, if_true, if_false,
    List.nil_append, List.cons_append, bne_self_eq_false, Bool.false_eq_true]
  -- colon, attached
  · have : tzText off .colon = signChar off :: (pad2 (off.natAbs / 60) ++ ':' :: pad2 (off.natAbs % 60)) := rfl
    rw [this]
    simp only [pad2, List.cons_append, List.nil_append] at hc' ⊢
    simp [parseTzGroup, hnl, parseOffset_digit, hc']
  -- colon, after a blank
  · simp [parseTzGroup, hc, show (TzStyle.colon != TzStyle.none) = true by decide, tzText]
  -- compact, attached
  · have : tzText off .compact = signChar off :: (pad2 (off.natAbs / 60) ++ pad2 (off.natAbs % 60)) := rfl
    rw [this] at hk ⊢
    simp only [pad2, List.cons_append, List.nil_append] at hk ⊢
    simp [parseTzGroup, hnl, parseOffset_digit, hk]
  -- compact, after a blank
  · simp [parseTzGroup, hk, show (TzStyle.compact != TzStyle.none) = true by decide]
  -- hours, attached
  · have h0 := parseOffset_hours off hoff (hh rfl)
    have : tzText off .hours = signChar off :: pad2 (off.natAbs / 60) := rfl
    rw [this] at h0 ⊢
    simp only [pad2] at h0 ⊢
    simp [parseTzGroup, hnl, parseOffset_digit, h0]
  -- hours, after a blank
  · have h0 := parseOffset_hours off hoff (hh rfl)
    simp [parseTzGroup, h0, show (TzStyle.hours != TzStyle.none) = true by decide]
  -- Z, attached
  · have := hu (Or.inl rfl); subst this
    decide
  -- Z, after a blank
  · have := hu (Or.inl rfl); subst this
    decide
  -- none
  · have := hu (Or.inr rfl); subst this
    decide
  · have := hu (Or.inr rfl); subst this
    decide

/-! ### the time of day -/

/-- the text after the time does not begin with `.` or `:` (it is empty, a blank, a sign or `Z`) -/
def TzHead : Str → Prop
  | [] => True
  | c :: _ => c ≠ '.' ∧ c ≠ ':'

theorem tzHead_tzPart (off : Int) (sp : Spelling) : TzHead (tzPart off sp) := by
  obtain ⟨sep, seconds, tz, tzsep⟩ := sp
  have hs : signChar off ≠ '.' ∧ signChar off ≠ ':' := by
    rcases signChar_cases off with h | h <;> rw [h] <;> decide
  cases tz <;> cases tzsep <;> simp [tzPart, tzText, TzHead, formatOffset, signChar] <;>
    (try (by_cases h : off < 0 <;> simp [h]))

theorem parseFrac_tzHead (r : Str) (h : TzHead r) : parseFrac r = (false, r) := by
  cases r with
  | nil => rfl
  | cons c r => simp [TzHead] at h; simp [parseFrac, h.1]

theorem parseSec_tzHead (r : Str) (h : TzHead r) : parseSec r = (0, false, r) := by
  cases r with
  | nil => rfl
  | cons c r => simp [TzHead] at h; simp [parseSec, h.2]

theorem parseSec_pad2 (s : Nat) (hs : s < 100) (r : Str) (h : TzHead r) :
    parseSec (':' :: (pad2 s ++ r)) = (s, false, r) := by
  simp [parseSec, num2_pad2 s hs, parseFrac_tzHead r h]

theorem parseTime_spelled (sep : Char) (hsep : sep ≠ '\n') (h mi s : Nat) (hh : h < 100) (hmi : mi < 100)
    (hs : s < 100) (seconds : Bool) (hsec : seconds = false → s = 0) (r : Str) (hr : TzHead r) :
    parseTime (sep :: (pad2 h ++ ':' :: (pad2 mi ++ ((if seconds then ':' :: pad2 s else []) ++ r)))) =
      some (h, mi, s, false, r) := by
  cases seconds with
  | true =>
    simp [parseTime, hsep, num2_pad2 h hh, num2_pad2 mi hmi, parseSec_pad2 s hs r hr]
  | false =>
    have := hsec rfl; subst this
    simp [parseTime, hsep, num2_pad2 h hh, num2_pad2 mi hmi, parseSec_tzHead r hr]

/-- **Every spelling of the family is read as the same fields and offset.** -/
theorem parseDate_spellDate (f : Fields) (off : Int) (sp : Spelling) (hok : sp.Ok f off)
    (hy : 0 ≤ f.year ∧ f.year < 10000) (hmo : f.month < 100) (hd : f.day < 100)
    (hh : f.hour < 100) (hmi : f.minute < 100) (hs : f.second < 100) (hoff : off.natAbs < 1440) :
    parseDate (spellDate f off sp) = some ⟨f, false, off⟩ := by
  have hyn : f.year.toNat < 10000 := by omega
  have hyi : (f.year.toNat : Int) = f.year := by omega
  have htz := parseTzGroup_tzPart off hoff sp hok.hours hok.utc
  unfold spellDate parseDate
  rw [parseYear_pad4 _ hyn '-' (by decide)]
  simp only [dashNum_pad2 _ hmo, dashNum_pad2 _ hd,
    parseTime_spelled sp.sep hok.sep _ _ _ hh hmi hs sp.seconds hok.sec _ (tzHead_tzPart off sp), htz, hyi]

/-! ### nothing to strip at the end -/

theorem stripR_of_last (s : Str) (h : ∀ c, s.getLast? = some c → isWs c = false) : stripR s = s := by
  rcases List.eq_nil_or_concat s with rfl | ⟨init, last, rfl⟩
  · rfl
  · rw [List.concat_eq_append] at h ⊢
    exact stripR_snoc init last (h last (by simp))

theorem getLast_tzText (off : Int) (st : TzStyle) (c : Char) (h : (tzText off st).getLast? = some c) :
    isWs c = false := by
  cases st <;> simp [tzText, formatOffset, pad2] at h <;> subst h <;> first | exact isWs_dch _ | decide

theorem stripR_spellDate (f : Fields) (off : Int) (sp : Spelling) :
    stripR (spellDate f off sp) = spellDate f off sp := by
  apply stripR_of_last
  intro c hc
  obtain ⟨sep, seconds, tz, tzsep⟩ := sp
  cases tz <;> cases tzsep <;> cases seconds <;>
    simp [spellDate, tzPart, tzText, formatOffset, pad4, pad2] at hc <;> subst hc <;>
    first | exact isWs_dch _ | decide

end Ems.TimeUnits
