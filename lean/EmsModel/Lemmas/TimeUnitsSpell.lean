import EmsModel.Core.TimeUnits
import EmsModel.Lemmas.TimeUnits
/-!
Lemmas/TimeUnitsSpell.lean — the family of spellings the property quantifies over
("written with or without `T` separators and seconds", offsets as `±HH:MM`, `±HHMM`, `±HH`, `Z` or
absent, attached or after a blank) and the fact that cftime's grammar reads every one of them as the
same fields and offset.  Core Lean only.
-/
namespace Ems.TimeUnits

inductive TzStyle | colon | compact | hours | zulu | none
deriving DecidableEq, Repr

structure Spelling where
  /-- the character between date and time: `T`, a blank, or anything but a newline -/
  sep : Char
  /-- is `:SS` written -/
  seconds : Bool
  tz : TzStyle
  /-- a blank before the offset -/
  tzsep : Bool
  /-- month, day, hour, minute and second zero-padded to two digits (`1990-01-01 00:00`) or not
  (`1990-1-1 0:0`) -/
  pad : Bool
deriving Repr

/-- `str(n)` for `n < 100` -/
def unp2 (n : Nat) : Str := if n < 10 then [dch n] else pad2 n

/-- a one- or two-digit field -/
def w2 (pad : Bool) (n : Nat) : Str := if pad then pad2 n else unp2 n

def signChar (off : Int) : Char := if off < 0 then '-' else '+'

def tzText (off : Int) : TzStyle → Str
  | .colon => formatOffset off
  | .compact => signChar off :: (pad2 (off.natAbs / 60) ++ pad2 (off.natAbs % 60))
  | .hours => signChar off :: pad2 (off.natAbs / 60)
  | .zulu => ['Z']
  | .none => []

/-- a spelling can express these fields and this offset -/
structure Spelling.Ok (sp : Spelling) (f : Fields) (off : Int) : Prop where
  sep : sp.sep ≠ '\n'
  sepd : sp.pad = false → isDig sp.sep = false
  sec : sp.seconds = false → f.second = 0
  hours : sp.tz = .hours → off.natAbs % 60 = 0
  utc : sp.tz = .zulu ∨ sp.tz = .none → off = 0

def tzPart (off : Int) (sp : Spelling) : Str :=
  (if sp.tzsep && sp.tz != .none then [' '] else []) ++ tzText off sp.tz

def spellDate (f : Fields) (off : Int) (sp : Spelling) : Str :=
  pad4 f.year.toNat ++ '-' :: (w2 sp.pad f.month ++ '-' :: (w2 sp.pad f.day ++ sp.sep :: (w2 sp.pad f.hour ++ ':' ::
    (w2 sp.pad f.minute ++ ((if sp.seconds then ':' :: w2 sp.pad f.second else []) ++ tzPart off sp)))))

def spellUnits (p : Str) (f : Fields) (off : Int) (sp : Spelling) : Str :=
  p ++ ' ' :: (since ++ ' ' :: spellDate f off sp)

/-! ### one- or two-digit fields -/

theorem num2_w2 (pad : Bool) (n : Nat) (hn : n < 100) (r : Str) (hr : pad = false → NoDigHead r) :
    num2 (w2 pad n ++ r) = some (n, r) := by
  cases pad with
  | true => exact num2_pad2 n hn r
  | false =>
    by_cases h : n < 10
    · have := num2_one (dch n) (isDig_dch n) r (hr rfl)
      simp only [w2, unp2, h, if_true, List.cons_append, List.nil_append, this, dval_dch, Bool.false_eq_true, if_false]
      congr 2; omega
    · simp only [w2, unp2, h, if_false, Bool.false_eq_true]
      exact num2_pad2 n hn r

theorem dashNum_w2 (pad : Bool) (n : Nat) (hn : n < 100) (r : Str) (hr : pad = false → NoDigHead r) :
    dashNum ('-' :: (w2 pad n ++ r)) = some (n, r) := by
  simp [dashNum, num2_w2 pad n hn r hr]

theorem w2_head (pad : Bool) (n : Nat) (r : Str) : ∃ k r', w2 pad n ++ r = dch k :: r' := by
  cases pad with
  | true => exact ⟨n / 10, dch n :: r, by simp [w2, pad2]⟩
  | false =>
    by_cases h : n < 10
    · exact ⟨n, r, by simp [w2, unp2, h]⟩
    · exact ⟨n / 10, dch n :: r, by simp [w2, unp2, h, pad2]⟩

theorem w2_getLast (pad : Bool) (n : Nat) : (w2 pad n).getLast? = some (dch n) := by
  cases pad with
  | true => simp [w2, pad2]
  | false => by_cases h : n < 10 <;> simp [w2, unp2, h, pad2]

theorem w2_ne_nil (pad : Bool) (n : Nat) : w2 pad n ≠ [] := by
  cases pad with
  | true => simp [w2, pad2]
  | false => by_cases h : n < 10 <;> simp [w2, unp2, h, pad2]

/-! ### offsets in the other styles -/

theorem tzMinutes_pad2 (n : Nat) (hn : n < 100) (r : Str) : tzMinutes (pad2 n ++ r) = (n, r) := by
  have h1 : dch (n / 10) ≠ ':' := dch_ne _ _ (by decide)
  have := two_pad2 n hn r
  simp only [pad2, List.cons_append, List.nil_append] at this ⊢
  simp [tzMinutes, h1, this]

theorem signChar_cases (off : Int) : signChar off = '+' ∨ signChar off = '-' := by
  unfold signChar; by_cases h : off < 0 <;> simp [h]

theorem parseTz_sign (off : Int) (h mm : Nat) (hh : h < 100) (r r2 : Str)
    (hmin : tzMinutes r = (mm, r2)) (htot : off.natAbs = h * 60 + mm) :
    parseTz (signChar off :: (pad2 h ++ r)) = some (off, r2) := by
  unfold signChar
  by_cases hneg : off < 0
  · simp [hneg, parseTz, two_pad2 h hh, hmin]; omega
  · simp [hneg, parseTz, two_pad2 h hh, hmin]; omega

theorem parseOffset_compact (off : Int) (h : off.natAbs < 1440) :
    parseOffset (tzText off .compact) = some off := by
  have := parseTz_sign off (off.natAbs / 60) (off.natAbs % 60) (by omega) (pad2 (off.natAbs % 60)) []
    (by have := tzMinutes_pad2 (off.natAbs % 60) (by omega) []; simpa using this) (by omega)
  simp [parseOffset, tzText, this]

theorem parseOffset_hours (off : Int) (h : off.natAbs < 1440) (h0 : off.natAbs % 60 = 0) :
    parseOffset (tzText off .hours) = some off := by
  have := parseTz_sign off (off.natAbs / 60) 0 (by omega) [] [] (by simp [tzMinutes]) (by omega)
  simp only [List.append_nil] at this
  simp [parseOffset, tzText, this]

theorem parseOffset_digit (k : Nat) (r : Str) : parseOffset (dch k :: r) = none := by
  have h1 : dch k ≠ 'Z' := dch_ne _ _ (by decide)
  have h2 : dch k ≠ '+' := dch_ne _ _ (by decide)
  have h3 : dch k ≠ '-' := dch_ne _ _ (by decide)
  simp [parseOffset, parseTz, h1, h2, h3]

theorem signChar_ne_nl (off : Int) : signChar off ≠ '\n' := by
  rcases signChar_cases off with h | h <;> rw [h] <;> decide

/-- the timezone group reads every style, attached or after a blank -/
theorem parseTzGroup_tzPart (off : Int) (hoff : off.natAbs < 1440) (sp : Spelling)
    (hh : sp.tz = .hours → off.natAbs % 60 = 0) (hu : sp.tz = .zulu ∨ sp.tz = .none → off = 0) :
    (parseTzGroup (tzPart off sp)).getD 0 = off := by
  obtain ⟨sep, seconds, tz, tzsep, pad⟩ := sp
  have hc := parseOffset_formatOffset off hoff
  have hc' : parseOffset (signChar off :: (pad2 (off.natAbs / 60) ++ ':' :: pad2 (off.natAbs % 60))) = some off :=
    parseOffset_formatOffset off hoff
  have hk := parseOffset_compact off hoff
  have hnl := signChar_ne_nl off
  cases tz <;> cases tzsep <;> simp only [tzPart, Bool.false_and, Bool.true_and, if_false,
    List.nil_append, bne_self_eq_false, Bool.false_eq_true]
  -- colon, attached
  · have : tzText off .colon = signChar off :: (pad2 (off.natAbs / 60) ++ ':' :: pad2 (off.natAbs % 60)) := rfl
    rw [this]
    simp only [pad2, List.cons_append, List.nil_append] at hc' ⊢
    simp [parseTzGroup, hnl, parseOffset_digit, hc']
  -- colon, after a blank
  · simp [parseTzGroup, hc, show (TzStyle.colon != TzStyle.none) = true by decide, tzText]
  -- compact, attached
  · have : tzText off .compact = signChar off :: (pad2 (off.natAbs / 60) ++ pad2 (off.natAbs % 60)) := rfl
    rw [this] at hk ⊢
    simp only [pad2, List.cons_append, List.nil_append] at hk ⊢
    simp [parseTzGroup, hnl, parseOffset_digit, hk]
  -- compact, after a blank
  · simp [parseTzGroup, hk, show (TzStyle.compact != TzStyle.none) = true by decide]
  -- hours, attached
  · have h0 := parseOffset_hours off hoff (hh rfl)
    have : tzText off .hours = signChar off :: pad2 (off.natAbs / 60) := rfl
    rw [this] at h0 ⊢
    simp only [pad2] at h0 ⊢
    simp [parseTzGroup, hnl, parseOffset_digit, h0]
  -- hours, after a blank
  · have h0 := parseOffset_hours off hoff (hh rfl)
    simp [parseTzGroup, h0, show (TzStyle.hours != TzStyle.none) = true by decide]
  -- Z, attached
  · have := hu (Or.inl rfl); subst this
    decide
  -- Z, after a blank
  · have := hu (Or.inl rfl); subst this
    decide
  -- none
  · have := hu (Or.inr rfl); subst this
    decide
  · have := hu (Or.inr rfl); subst this
    decide

/-! ### the time of day -/

/-- the text after the time does not begin with `.` or `:` (it is empty, a blank, a sign or `Z`) -/
def TzHead : Str → Prop
  | [] => True
  | c :: _ => c ≠ '.' ∧ c ≠ ':'

theorem tzHead_tzPart (off : Int) (sp : Spelling) : TzHead (tzPart off sp) := by
  obtain ⟨sep, seconds, tz, tzsep, pad⟩ := sp
  cases tz <;> cases tzsep <;> simp [tzPart, tzText, TzHead, formatOffset, signChar] <;>
    (try (by_cases h : off < 0 <;> simp [h]))

theorem noDig_tzPart (off : Int) (sp : Spelling) : NoDigHead (tzPart off sp) := by
  obtain ⟨sep, seconds, tz, tzsep, pad⟩ := sp
  cases tz <;> cases tzsep <;> simp [tzPart, tzText, NoDigHead, formatOffset, signChar] <;>
    (try (by_cases h : off < 0 <;> simp [h])) <;> decide

theorem parseFrac_tzHead (r : Str) (h : TzHead r) : parseFrac r = (false, r) := by
  cases r with
  | nil => rfl
  | cons c r => simp [TzHead] at h; simp [parseFrac, h.1]

theorem parseSec_tzHead (r : Str) (h : TzHead r) : parseSec r = (0, false, r) := by
  cases r with
  | nil => rfl
  | cons c r => simp [TzHead] at h; simp [parseSec, h.2]

theorem parseSec_w2 (pad : Bool) (s : Nat) (hs : s < 100) (r : Str) (h : TzHead r) (hd : NoDigHead r) :
    parseSec (':' :: (w2 pad s ++ r)) = (s, false, r) := by
  simp [parseSec, num2_w2 pad s hs r (fun _ => hd), parseFrac_tzHead r h]

theorem parseTime_spelled (pad : Bool) (sep : Char) (hsep : sep ≠ '\n') (h mi s : Nat) (hh : h < 100) (hmi : mi < 100)
    (hs : s < 100) (seconds : Bool) (hsec : seconds = false → s = 0) (r : Str) (hr : TzHead r) (hd : NoDigHead r) :
    parseTime (sep :: (w2 pad h ++ ':' :: (w2 pad mi ++ ((if seconds then ':' :: w2 pad s else []) ++ r)))) =
      some (h, mi, s, false, r) := by
  have hcolon : ∀ x : Str, NoDigHead (':' :: x) := fun _ => by simp [NoDigHead]; decide
  cases seconds with
  | true =>
    simp [parseTime, hsep, num2_w2 pad h hh _ (fun _ => hcolon _), num2_w2 pad mi hmi _ (fun _ => hcolon _),
      parseSec_w2 pad s hs r hr hd]
  | false =>
    have := hsec rfl; subst this
    simp [parseTime, hsep, num2_w2 pad h hh _ (fun _ => hcolon _), num2_w2 pad mi hmi r (fun _ => hd),
      parseSec_tzHead r hr]

/-- **Every spelling of the family is read as the same fields and offset.** -/
theorem parseDate_spellDate (f : Fields) (off : Int) (sp : Spelling) (hok : sp.Ok f off)
    (hy : 0 ≤ f.year ∧ f.year < 10000) (hmo : f.month < 100) (hd : f.day < 100)
    (hh : f.hour < 100) (hmi : f.minute < 100) (hs : f.second < 100) (hoff : off.natAbs < 1440) :
    parseDate (spellDate f off sp) = some ⟨f, false, off⟩ := by
  have hyn : f.year.toNat < 10000 := by omega
  have hyi : (f.year.toNat : Int) = f.year := by omega
  have htz := parseTzGroup_tzPart off hoff sp hok.hours hok.utc
  have hdash : ∀ x : Str, NoDigHead ('-' :: x) := fun _ => by simp [NoDigHead]; decide
  have hsepd : ∀ x : Str, sp.pad = false → NoDigHead (sp.sep :: x) := fun _ hp => by
    simp [NoDigHead]; exact hok.sepd hp
  unfold spellDate parseDate
  rw [parseYear_pad4 _ hyn '-' (by decide)]
  simp only [dashNum_w2 sp.pad _ hmo _ (fun _ => hdash _), dashNum_w2 sp.pad _ hd _ (hsepd _),
    parseTime_spelled sp.pad sp.sep hok.sep _ _ _ hh hmi hs sp.seconds hok.sec _ (tzHead_tzPart off sp)
      (noDig_tzPart off sp), htz, hyi]

/-! ### nothing to strip at the end -/

theorem stripR_of_last (s : Str) (h : ∀ c, s.getLast? = some c → isWs c = false) : stripR s = s := by
  rcases List.eq_nil_or_concat s with rfl | ⟨init, last, rfl⟩
  · rfl
  · rw [List.concat_eq_append] at h ⊢
    exact stripR_snoc init last (h last (by simp))

theorem getLast_append_some (xs ys : Str) (c : Char) (h : ys.getLast? = some c) :
    (xs ++ ys).getLast? = some c := by
  simp [List.getLast?_append, h]

theorem getLast_cons_some (a : Char) (ys : Str) (c : Char) (h : ys.getLast? = some c) :
    (a :: ys).getLast? = some c := getLast_append_some [a] ys c h

theorem getLast_tzText (off : Int) (st : TzStyle) (hst : st ≠ .none) :
    ∃ c, (tzText off st).getLast? = some c ∧ isWs c = false := by
  cases st with
  | none => exact absurd rfl hst
  | zulu => exact ⟨'Z', by simp [tzText], by decide⟩
  | colon => exact ⟨dch (off.natAbs % 60), by simp [tzText, formatOffset, pad2], isWs_dch _⟩
  | compact => exact ⟨dch (off.natAbs % 60), by simp [tzText, pad2], isWs_dch _⟩
  | hours => exact ⟨dch (off.natAbs / 60), by simp [tzText, pad2], isWs_dch _⟩

/-- the text from the minutes on ends with a character that is not blank -/
theorem getLast_minutes (f : Fields) (off : Int) (sp : Spelling) :
    ∃ c, (w2 sp.pad f.minute ++ ((if sp.seconds then ':' :: w2 sp.pad f.second else []) ++ tzPart off sp)).getLast? = some c ∧
      isWs c = false := by
  by_cases htz : sp.tz = .none
  · have : tzPart off sp = [] := by simp [tzPart, htz, tzText]
    rw [this]
    cases hs : sp.seconds with
    | true =>
      refine ⟨dch f.second, ?_, isWs_dch _⟩
      simp only [if_true, List.append_nil]
      exact getLast_append_some _ _ _ (getLast_cons_some _ _ _ (w2_getLast _ _))
    | false =>
      refine ⟨dch f.minute, ?_, isWs_dch _⟩
      simp [w2_getLast]
  · obtain ⟨c, hc, hw⟩ := getLast_tzText off sp.tz htz
    refine ⟨c, ?_, hw⟩
    apply getLast_append_some
    apply getLast_append_some
    unfold tzPart
    exact getLast_append_some _ _ _ hc

theorem stripR_spellDate (f : Fields) (off : Int) (sp : Spelling) :
    stripR (spellDate f off sp) = spellDate f off sp := by
  apply stripR_of_last
  obtain ⟨c0, hc0, hw⟩ := getLast_minutes f off sp
  have : (spellDate f off sp).getLast? = some c0 := by
    unfold spellDate
    apply getLast_append_some; apply getLast_cons_some
    apply getLast_append_some; apply getLast_cons_some
    apply getLast_append_some; apply getLast_cons_some
    apply getLast_append_some; apply getLast_cons_some
    exact hc0
  intro c hc
  rw [this] at hc
  cases hc
  exact hw

end Ems.TimeUnits
