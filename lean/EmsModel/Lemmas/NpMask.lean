import EmsModel.Core.NpMask
import EmsModel.Lemmas.Mask
import EmsModel.Lemmas.NpDerived2d
/-!
Lemmas/NpMask.lean — the three masks `arakawa_c.c_mask_from_centres` builds with `masking.smear_mask`, GENERATED
FROM THE SOURCE (`Gen.cMaskLeft`, `Gen.cMaskBack`, `Gen.cMaskNode`: the calls inlined, the generator expressions over
`itertools.product` unrolled for the literal `pad_axes`, `functools.reduce(operator.or_, …)` folded), compute the
arrays of `Ems.Clip.cMaskFromCentres` for every shape; `masking.blur_mask` (`Gen.blurMask`) computes `Mask.blur`.  Masks (`rows of Bool`) are read as arrays through `maskArr`.
Same three steps as `Lemmas/NpPipelines.lean`: shape by `np_simp2`, `eval_sound`, element by element.
-/
namespace Ems
open NpArr Ems.Clip Ems.Clip.Mask

theorem maskArr_shape (m : Mask) : (maskArr m).shape = [m.ny, m.nx] := rfl
theorem maskArr_wf (m : Mask) : (maskArr m).WF := tabulate_wf _ _

/-- reading a mask as an array: `0` / `1` inside, nothing outside -/
theorem maskArr_get (m : Mask) (j i : Nat) :
    (maskArr m).get [j, i] = if j < m.ny ∧ i < m.nx then boolVal (m.get j i) else none := by
  by_cases h : j < m.ny ∧ i < m.nx
  · rw [maskArr, get_tabulate _ _ _ (by simpa [InRange] using h)]
    simp [h]
  · have hn : ¬ InRange (maskArr m).shape [j, i] := by
      show ¬ InRange [m.ny, m.nx] [j, i]
      simpa [InRange] using h
    rw [get_of_not_inRange _ _ hn]
    simp [h]

theorem cMaskEnv_wf (face : Mask) : (cMaskEnv face).WF := by
  intro p hp
  simp only [cMaskEnv, List.mem_cons, List.not_mem_nil, or_false] at hp
  subst hp
  exact maskArr_wf _

theorem get_eq_false_of_not_lt (m : Mask) (j i : Nat) (h : ¬ (j < m.ny ∧ i < m.nx)) : m.get j i = false := by
  cases hg : m.get j i
  · rfl
  · exact absurd ⟨get_lt_ny hg, get_lt_nx hg⟩ h

/-- a padded read of a mask array: the guard of `numpy.pad` and the range check of the array, in one boolean -/
theorem pad_read (m : Mask) (c : Prop) [Decidable c] (a b : Nat) (h : c → a < m.ny ∧ b < m.nx) :
    (if c then (maskArr m).get [a, b] else some 0) = boolVal (decide c && m.get a b) := by
  by_cases hc : c
  · simp [hc, maskArr_get, h hc]
  · simp [hc, boolVal]

theorem borV_boolVal (a b : Bool) : borV (boolVal a) (boolVal b) = boolVal (a || b) := by
  simp [borV, truthy_boolVal]

theorem cmask_left_shape (face : Mask) :
    shapeOf (cMaskEnv face) Gen.cMaskLeft = some [face.ny, face.nx + 1] := by
  np_simp2 [Gen.cMaskLeft, cMaskEnv, maskArr_shape, Nat.add_comm 1 face.nx]

theorem cmask_left_pipeline (face : Mask) :
    eval (cMaskEnv face) Gen.cMaskLeft = some (maskArr (cMaskFromCentres face).left) := by
  rw [eval_sound _ (cMaskEnv_wf face) _ _ (cmask_left_shape face)]
  congr 1
  have hs : [(cMaskFromCentres face).left.ny, (cMaskFromCentres face).left.nx] = [face.ny, face.nx + 1] := by
    simp [cMaskFromCentres, smear_ny, smear_nx]
  rw [maskArr, hs]
  apply tabulate_congr
  intro idx hidx
  match idx, hidx with
  | [j, i], h =>
    have hj : j < face.ny := h.1
    have hi : i < face.nx + 1 := h.2.1
    np_simp2 [Gen.cMaskLeft, cMaskEnv, maskArr_shape, Nat.add_comm 1 face.nx, hj, hi]
    simp (disch := omega) only [pad_read, borV_boolVal]
    congr 1
    rw [Bool.eq_iff_iff]
    show _ ↔ (face.smear false true).get j i = true
    rw [get_smear_ft]
    have : ¬ i < face.nx → face.get j i = false := fun hn => get_eq_false_of_not_lt face j i (by omega)
    by_cases h2 : i < face.nx <;> simp [h2, this]

theorem cmask_back_shape (face : Mask) :
    shapeOf (cMaskEnv face) Gen.cMaskBack = some [face.ny + 1, face.nx] := by
  np_simp2 [Gen.cMaskBack, cMaskEnv, maskArr_shape, Nat.add_comm 1 face.ny]

theorem cmask_back_pipeline (face : Mask) :
    eval (cMaskEnv face) Gen.cMaskBack = some (maskArr (cMaskFromCentres face).back) := by
  rw [eval_sound _ (cMaskEnv_wf face) _ _ (cmask_back_shape face)]
  congr 1
  have hs : [(cMaskFromCentres face).back.ny, (cMaskFromCentres face).back.nx] = [face.ny + 1, face.nx] := by
    simp [cMaskFromCentres, smear_ny, smear_nx]
  rw [maskArr, hs]
  apply tabulate_congr
  intro idx hidx
  match idx, hidx with
  | [j, i], h =>
    have hj : j < face.ny + 1 := h.1
    have hi : i < face.nx := h.2.1
    np_simp2 [Gen.cMaskBack, cMaskEnv, maskArr_shape, Nat.add_comm 1 face.ny, hj, hi]
    simp (disch := omega) only [pad_read, borV_boolVal]
    congr 1
    rw [Bool.eq_iff_iff]
    show _ ↔ (face.smear true false).get j i = true
    rw [get_smear_tf]
    have : ¬ j < face.ny → face.get j i = false := fun hn => get_eq_false_of_not_lt face j i (by omega)
    by_cases h2 : j < face.ny <;> simp [h2, this]

theorem cmask_node_shape (face : Mask) :
    shapeOf (cMaskEnv face) Gen.cMaskNode = some [face.ny + 1, face.nx + 1] := by
  np_simp2 [Gen.cMaskNode, cMaskEnv, maskArr_shape, Nat.add_comm 1 face.ny, Nat.add_comm 1 face.nx]

theorem cmask_node_pipeline (face : Mask) :
    eval (cMaskEnv face) Gen.cMaskNode = some (maskArr (cMaskFromCentres face).node) := by
  rw [eval_sound _ (cMaskEnv_wf face) _ _ (cmask_node_shape face)]
  congr 1
  have hs : [(cMaskFromCentres face).node.ny, (cMaskFromCentres face).node.nx] = [face.ny + 1, face.nx + 1] := by
    simp [cMaskFromCentres, smear_ny, smear_nx]
  rw [maskArr, hs]
  apply tabulate_congr
  intro idx hidx
  match idx, hidx with
  | [j, i], h =>
    have hj : j < face.ny + 1 := h.1
    have hi : i < face.nx + 1 := h.2.1
    np_simp2 [Gen.cMaskNode, cMaskEnv, maskArr_shape, Nat.add_comm 1 face.ny, Nat.add_comm 1 face.nx, hj, hi]
    simp (disch := omega) only [pad_read, borV_boolVal]
    · congr 1
      rw [Bool.eq_iff_iff]
      show _ ↔ (face.smear true true).get j i = true
      rw [get_smear_tt]
      have f1 : ¬ i < face.nx → face.get j i = false := fun hn => get_eq_false_of_not_lt face j i (by omega)
      have f2 : ¬ j < face.ny → face.get j i = false := fun hn => get_eq_false_of_not_lt face j i (by omega)
      have f3 : ¬ i < face.nx → face.get (j - 1) i = false := fun hn => get_eq_false_of_not_lt face _ i (by omega)
      have f4 : ¬ j < face.ny → face.get j (i - 1) = false := fun hn => get_eq_false_of_not_lt face j _ (by omega)
      by_cases h1 : j < face.ny <;> by_cases h2 : i < face.nx <;> simp [h1, h2, f1, f2, f3, f4, or_assoc, and_assoc]

/-! ### `masking.blur_mask`

`Gen.blurMask` is `windowAny arr (padAll arr size False) (size * 2 + 1)`: the `nditer` / `fromiter` idiom of the source.
For every mask and every `size` it evaluates to the array of `Mask.blur`. -/

theorem blurEnv_wf (m : Mask) (size : Nat) : (blurEnv m size).WF := by
  intro p hp
  simp only [blurEnv, List.mem_cons, List.not_mem_nil, or_false] at hp
  subst hp
  exact maskArr_wf _

/-- a window over a two-dimensional array: rows, then columns -/
theorem anyWindowAt_2d (t : List Nat) (g : List Nat → Option Rat) (j i n : Nat) :
    anyWindowAt t g [j, i] n = (List.range n).any fun dj => (List.range n).any fun di =>
      (ravel t [j + dj, i + di]).isSome && truthy (g [j + dj, i + di]) := by
  simp [anyWindowAt, windowOffsets, addIdx, List.any_flatMap, List.any_map, Function.comp_def]

theorem ravel2_isSome (a b x y : Nat) : (ravel [a, b] [x, y]).isSome = (decide (x < a) && decide (y < b)) := by
  by_cases hx : x < a <;> by_cases hy : y < b <;> simp [ravel, hx, hy]

theorem blur_pipeline_shape (m : Mask) (size : Nat) :
    shapeOf (blurEnv m size) Gen.blurMask = some [m.ny, m.nx] := by
  np_simp2 [Gen.blurMask, blurEnv, maskArr_shape, ScalarTerm.val, List.replicate]

set_option linter.unusedSimpArgs false in
theorem blur_pipeline (m : Mask) (size : Nat) :
    eval (blurEnv m size) Gen.blurMask = some (maskArr (m.blur size)) := by
  rw [eval_sound _ (blurEnv_wf m size) _ _ (blur_pipeline_shape m size)]
  congr 1
  have hs : [(m.blur size).ny, (m.blur size).nx] = [m.ny, m.nx] := rfl
  rw [maskArr, hs]
  apply tabulate_congr
  intro idx hidx
  match idx, hidx with
  | [j, i], h =>
    have hj : j < m.ny := h.1
    have hi : i < m.nx := h.2.1
    simp (config := { decide := true }) [getOf, shapeOf, List.lookup, padShape, padIn, padSrc, Gen.blurMask, blurEnv,
      maskArr_shape, ScalarTerm.val, List.replicate, anyWindowAt_2d, ravel2_isSome, Nat.mul_comm 2 size]
    simp (disch := omega) only [pad_read, truthy_boolVal]
    have key : ∀ dj di,
        (decide (j + dj < size + m.ny + size) && decide (i + di < size + m.nx + size) &&
          (decide (size ≤ j + dj ∧ j + dj < size + m.ny ∧ size ≤ i + di ∧ i + di < size + m.nx) &&
            m.get (j + dj - size) (i + di - size)))
        = (m.pad size size size size).get (j + dj) (i + di) := by
      intro dj di
      rw [get_pad, Bool.eq_iff_iff]
      simp only [Bool.and_eq_true, decide_eq_true_eq]
      constructor
      · rintro ⟨_, ⟨h1, _, h3, _⟩, hg⟩
        exact ⟨h1, h3, hg⟩
      · rintro ⟨h1, h3, hg⟩
        have := get_lt_ny hg
        have := get_lt_nx hg
        exact ⟨⟨by omega, by omega⟩, ⟨h1, by omega, h3, by omega⟩, hg⟩
    simp only [key]
    congr 1
    simp [blur, get_ofFn, anyWindow, hj, hi, maskArr_get, truthy_boolVal]

end Ems
