import EmsModel.Lemmas.NDArray
/-! Mixed-radix associativity of row-major indexes, and what reading a flattened array means. -/
namespace Ems

theorem size_append (s1 s2 : List Nat) : size (s1 ++ s2) = size s1 * size s2 := by
  induction s1 with
  | nil => simp [size]
  | cons d ds ih => simp [size, ih, Nat.mul_assoc]

/-- The flat index of a concatenated multi-index: `ravel (s1 ++ s2) (i1 ++ i2) = a * |s2| + b`. -/
theorem ravel_append : ∀ (s1 i1 s2 i2 : List Nat) (a b : Nat),
    ravel s1 i1 = some a → ravel s2 i2 = some b →
    ravel (s1 ++ s2) (i1 ++ i2) = some (a * size s2 + b)
  | [], [], s2, i2, a, b, h1, h2 => by
    simp [ravel] at h1; subst h1; simp [h2]
  | [], _ :: _, _, _, _, _, h1, _ => by simp [ravel] at h1
  | _ :: _, [], _, _, _, _, h1, _ => by simp [ravel] at h1
  | d :: ds, i :: is, s2, i2, a, b, h1, h2 => by
    simp only [ravel] at h1
    split at h1
    · rename_i hi
      cases hr : ravel ds is with
      | none => simp [hr] at h1
      | some r =>
        simp [hr] at h1
        subst h1
        have ih := ravel_append ds is s2 i2 r b hr h2
        simp only [List.cons_append, ravel, hi, if_true, ih, Option.map_some, size_append]
        congr 1
        rw [Nat.add_mul, Nat.mul_assoc, Nat.add_assoc]
    · simp at h1

theorem ravel_singleton (g n : Nat) (h : n < g) : ravel [g] [n] = some n := by
  simp [ravel, h, size]

theorem size_singleton (g : Nat) : size [g] = g := by simp [size]

end Ems

namespace Ems

theorem inRange_length : ∀ (s idx : List Nat), InRange s idx → idx.length = s.length
  | [], [], _ => rfl
  | [], _ :: _, h => by simp [InRange] at h
  | _ :: _, [], h => by simp [InRange] at h
  | _ :: ds, _ :: is, h => by simp [inRange_length ds is h.2]

theorem unravel_length (s : List Nat) (n : Nat) (idx : List Nat) (h : unravel s n = some idx) :
    idx.length = s.length :=
  inRange_length s idx (ravel_inRange s idx n (ravel_of_unravel s n idx h))

theorem allSome_append {β : Type} : ∀ (l1 l2 : List (Option β)) (a b : List β),
    allSome l1 = some a → allSome l2 = some b → allSome (l1 ++ l2) = some (a ++ b)
  | [], l2, a, b, h1, h2 => by simp [allSome] at h1; subst h1; simpa using h2
  | none :: _, _, _, _, h1, _ => by simp [allSome] at h1
  | some x :: xs, l2, a, b, h1, h2 => by
    simp only [allSome] at h1
    cases hx : allSome xs with
    | none => simp [hx] at h1
    | some a' =>
      simp [hx] at h1; subst h1
      simp [allSome, allSome_append xs l2 a' b hx h2]

theorem index_append (e : Env) (l1 l2 : List String) (a b : List Nat)
    (h1 : e.index l1 = some a) (h2 : e.index l2 = some b) : e.index (l1 ++ l2) = some (a ++ b) := by
  simp only [Env.index, List.map_append] at *
  exact allSome_append _ _ a b h1 h2

theorem lookup_append_left_none (d : String) (l1 l2 : Env) (h : List.lookup d l1 = none) :
    List.lookup d (l1 ++ l2) = List.lookup d l2 := by
  induction l1 with
  | nil => rfl
  | cons x xs ih =>
    obtain ⟨k, w⟩ := x
    simp only [List.lookup_cons] at h
    simp only [List.cons_append, List.lookup_cons]
    cases hk : d == k with
    | true => simp [hk] at h
    | false => simp only [hk] at h; exact ih h

theorem lookup_append_left_some (d : String) (l1 l2 : Env) (x : Nat) (h : List.lookup d l1 = some x) :
    List.lookup d (l1 ++ l2) = some x := by
  induction l1 with
  | nil => simp at h
  | cons y ys ih =>
    obtain ⟨k, w⟩ := y
    simp only [List.lookup_cons] at h
    simp only [List.cons_append, List.lookup_cons]
    cases hk : d == k with
    | true => simpa [hk] using h
    | false => simp only [hk] at h; exact ih h

theorem lookup_zip_none : ∀ (names : List String) (idx : List Nat) (d : String), d ∉ names →
    List.lookup d (names.zip idx) = none
  | [], _, _, _ => by simp
  | _ :: _, [], _, _ => by simp
  | n :: ns, i :: is, d, h => by
    have hne : d ≠ n := fun e => h (by simp [e])
    have hb : (d == n) = false := by simp [hne]
    simp only [List.zip_cons_cons, List.lookup_cons, hb]
    exact lookup_zip_none ns is d (fun hm => h (by simp [hm]))

namespace NArr
variable {α : Type}

/-- **Reading a flattened array.**  If `m`'s data are laid out over `others ++ gd`, then the
same data viewed with the `gd` dimensions replaced by one linear dimension of length
`∏ gd` holds, at linear position `n`, the value `m` holds at the multi-index `unravel n`:
flattened order is row-major order over the grid dimensions. -/
theorem get_flat (m : NArr α) (others gd : List Dim) (lin : String) (e : Env) (v : String → Nat)
    (n : Nat) (ig : List Nat)
    (hm : m.dims = others ++ gd) (hwf : m.WF)
    (hv : ∀ d ∈ others, e.get d.1 = some (v d.1) ∧ v d.1 < d.2)
    (hn : e.get lin = some n) (hig : unravel (gd.map (·.2)) n = some ig) :
    ({ dims := others ++ [(lin, size (gd.map (·.2)))], data := m.data } : NArr α).get? e
      = m.get? ((gd.map (·.1)).zip ig ++ e) := by
  have hnodup : ((others ++ gd).map (·.1)).Nodup := by have := hwf.2; rwa [names, hm] at this
  rw [List.map_append, List.nodup_append] at hnodup
  obtain ⟨hno, hng, hdisj⟩ := hnodup
  have hlt : n < size (gd.map (·.2)) := unravel_lt_size _ _ _ hig
  have hrav := ravel_of_unravel _ _ _ hig
  have hlen : (gd.map (·.1)).length = ig.length := by
    have := unravel_length _ _ _ hig; simp at this ⊢; omega
  -- index of the `others` part, for both environments
  have hio : e.index (others.map (·.1)) = some ((others.map (·.1)).map v) :=
    index_of_fun e v _ (by
      intro d hd
      obtain ⟨d', hd', rfl⟩ := List.mem_map.mp hd
      exact (hv d' hd').1)
  have hio' : Env.index ((gd.map (·.1)).zip ig ++ e) (others.map (·.1)) = some ((others.map (·.1)).map v) :=
    index_of_fun _ v _ (by
      intro d hd
      obtain ⟨d', hd', rfl⟩ := List.mem_map.mp hd
      have hnot : d'.1 ∉ gd.map (·.1) := fun hg => hdisj d'.1 hd d'.1 hg rfl
      simp only [Env.get]
      rw [lookup_append_left_none _ _ _ (lookup_zip_none _ _ _ hnot)]
      exact (hv d' hd').1)
  have hro := inRange_map v others (fun d hd => (hv d hd).2)
  obtain ⟨ao, hao⟩ := inRange_ravel _ _ hro
  -- left side
  have hL1 : e.index ((others.map (·.1)) ++ [lin]) = some ((others.map (·.1)).map v ++ [n]) :=
    index_append e _ _ _ _ hio (by simp [Env.index, allSome, hn])
  have hL2 : ravel (others.map (·.2) ++ [size (gd.map (·.2))]) ((others.map (·.1)).map v ++ [n])
      = some (ao * size (gd.map (·.2)) + n) := by
    have := ravel_append _ _ _ _ ao n hao (ravel_singleton _ _ hlt)
    simpa [size_singleton] using this
  -- right side
  have hig' : Env.index ((gd.map (·.1)).zip ig ++ e) (gd.map (·.1)) = some ig := by
    have hz := index_zip (gd.map (·.1)) ig hng hlen
    have hall := allSome_eq_some _ _ hz
    simp only [Env.index] at hz ⊢
    have : (gd.map (·.1)).map (Env.get ((gd.map (·.1)).zip ig ++ e)) = (gd.map (·.1)).map (Env.get ((gd.map (·.1)).zip ig)) := by
      apply List.map_congr_left
      intro d hd
      obtain ⟨x, hx⟩ := lookup_zip_of_mem (gd.map (·.1)) ig hlen d hd
      simp only [Env.get]
      rw [lookup_append_left_some _ _ _ x hx, hx]
    rw [this, hz]
  have hR1 : Env.index ((gd.map (·.1)).zip ig ++ e) ((others.map (·.1)) ++ gd.map (·.1))
      = some ((others.map (·.1)).map v ++ ig) := index_append _ _ _ _ _ hio' hig'
  have hR2 : ravel (others.map (·.2) ++ gd.map (·.2)) ((others.map (·.1)).map v ++ ig)
      = some (ao * size (gd.map (·.2)) + n) := ravel_append _ _ _ _ ao n hao hrav
  simp only [get?, names, shape, hm, List.map_append, List.map_cons, List.map_nil, hL1, hL2, hR1, hR2]

end NArr
end Ems

namespace Ems.NArr
variable {α : Type}

/-- Generalisation of `get_flat` with trailing dimensions: data laid out over
`pre ++ gd ++ post`, viewed with `gd` replaced by one linear dimension in the same place
(`wind_dimension` / numpy `reshape`). -/
theorem get_flat_mid (m : NArr α) (pre gd post : List Dim) (lin : String) (e : Env) (v : String → Nat)
    (n : Nat) (ig : List Nat)
    (hm : m.dims = pre ++ (gd ++ post)) (hwf : m.WF)
    (hv : ∀ d ∈ pre ++ post, e.get d.1 = some (v d.1) ∧ v d.1 < d.2)
    (hn : e.get lin = some n) (hig : unravel (gd.map (·.2)) n = some ig) :
    ({ dims := pre ++ ((lin, size (gd.map (·.2))) :: post), data := m.data } : NArr α).get? e
      = m.get? ((gd.map (·.1)).zip ig ++ e) := by
  have hnodup : ((pre ++ (gd ++ post)).map (·.1)).Nodup := by have := hwf.2; rwa [names, hm] at this
  simp only [List.map_append, List.nodup_append] at hnodup
  obtain ⟨_, ⟨hng, _, hgpost⟩, hdisj⟩ := hnodup
  have hlt : n < size (gd.map (·.2)) := unravel_lt_size _ _ _ hig
  have hrav := ravel_of_unravel _ _ _ hig
  have hlen : (gd.map (·.1)).length = ig.length := by
    have := unravel_length _ _ _ hig; simp at this ⊢; omega
  have hvpre : ∀ d ∈ pre, e.get d.1 = some (v d.1) ∧ v d.1 < d.2 := fun d hd => hv d (by simp [hd])
  have hvpost : ∀ d ∈ post, e.get d.1 = some (v d.1) ∧ v d.1 < d.2 := fun d hd => hv d (by simp [hd])
  have idx_e : ∀ (l : List Dim), (∀ d ∈ l, e.get d.1 = some (v d.1) ∧ v d.1 < d.2) →
      e.index (l.map (·.1)) = some ((l.map (·.1)).map v) := fun l hl =>
    index_of_fun e v _ (by
      intro d hd
      obtain ⟨d', hd', rfl⟩ := List.mem_map.mp hd
      exact (hl d' hd').1)
  have idx_e' : ∀ (l : List Dim), (∀ d ∈ l, e.get d.1 = some (v d.1) ∧ v d.1 < d.2) →
      (∀ d ∈ l, d.1 ∉ gd.map (·.1)) →
      Env.index ((gd.map (·.1)).zip ig ++ e) (l.map (·.1)) = some ((l.map (·.1)).map v) := fun l hl hnot =>
    index_of_fun _ v _ (by
      intro d hd
      obtain ⟨d', hd', rfl⟩ := List.mem_map.mp hd
      simp only [Env.get]
      rw [lookup_append_left_none _ _ _ (lookup_zip_none _ _ _ (hnot d' hd'))]
      exact (hl d' hd').1)
  have hpre_not : ∀ d ∈ pre, d.1 ∉ gd.map (·.1) := fun d hd hg =>
    hdisj d.1 (List.mem_map_of_mem hd) d.1 (by simp [hg]) rfl
  have hpost_not : ∀ d ∈ post, d.1 ∉ gd.map (·.1) := fun d hd hg =>
    hgpost d.1 hg d.1 (List.mem_map_of_mem hd) rfl
  obtain ⟨apre, hapre⟩ := inRange_ravel _ _ (inRange_map v pre (fun d hd => (hvpre d hd).2))
  obtain ⟨apost, hapost⟩ := inRange_ravel _ _ (inRange_map v post (fun d hd => (hvpost d hd).2))
  -- left: pre ++ lin :: post
  have hL1 : e.index (pre.map (·.1) ++ (lin :: post.map (·.1)))
      = some ((pre.map (·.1)).map v ++ (n :: (post.map (·.1)).map v)) := by
    apply index_append e _ _ _ _ (idx_e pre hvpre)
    have := index_append e [lin] (post.map (·.1)) [n] _ (by simp [Env.index, allSome, hn]) (idx_e post hvpost)
    simpa using this
  have hL2 : ravel (pre.map (·.2) ++ (size (gd.map (·.2)) :: post.map (·.2)))
        ((pre.map (·.1)).map v ++ (n :: (post.map (·.1)).map v))
      = some (apre * (size (gd.map (·.2)) * size (post.map (·.2))) + (n * size (post.map (·.2)) + apost)) := by
    have h1 := ravel_append [size (gd.map (·.2))] [n] _ _ n apost (ravel_singleton _ _ hlt) hapost
    have h2 := ravel_append _ _ _ _ apre _ hapre h1
    simpa [size, size_append] using h2
  -- right: pre ++ gd ++ post
  have hig' : Env.index ((gd.map (·.1)).zip ig ++ e) (gd.map (·.1)) = some ig := by
    have hz := index_zip (gd.map (·.1)) ig hng hlen
    simp only [Env.index] at hz ⊢
    have : (gd.map (·.1)).map (Env.get ((gd.map (·.1)).zip ig ++ e)) = (gd.map (·.1)).map (Env.get ((gd.map (·.1)).zip ig)) := by
      apply List.map_congr_left
      intro d hd
      obtain ⟨x, hx⟩ := lookup_zip_of_mem (gd.map (·.1)) ig hlen d hd
      simp only [Env.get]
      rw [lookup_append_left_some _ _ _ x hx, hx]
    rw [this, hz]
  have hR1 : Env.index ((gd.map (·.1)).zip ig ++ e) (pre.map (·.1) ++ (gd.map (·.1) ++ post.map (·.1)))
      = some ((pre.map (·.1)).map v ++ (ig ++ (post.map (·.1)).map v)) :=
    index_append _ _ _ _ _ (idx_e' pre hvpre hpre_not)
      (index_append _ _ _ _ _ hig' (idx_e' post hvpost hpost_not))
  have hR2 : ravel (pre.map (·.2) ++ (gd.map (·.2) ++ post.map (·.2)))
        ((pre.map (·.1)).map v ++ (ig ++ (post.map (·.1)).map v))
      = some (apre * (size (gd.map (·.2)) * size (post.map (·.2))) + (n * size (post.map (·.2)) + apost)) := by
    have h1 := ravel_append _ _ _ _ n apost hrav hapost
    have h2 := ravel_append _ _ _ _ apre _ hapre h1
    simpa [size_append] using h2
  simp only [get?, names, shape, hm, List.map_append, List.map_cons, hL1, hL2, hR1, hR2]

end Ems.NArr

namespace Ems

/-- the environment `names.zip ig` assigns each listed dimension an in-range index -/
theorem zip_env_spec : ∀ (gd : List Dim) (ig : List Nat), (gd.map (·.1)).Nodup →
    InRange (gd.map (·.2)) ig →
    ∀ d ∈ gd, ∃ x, List.lookup d.1 ((gd.map (·.1)).zip ig) = some x ∧ x < d.2
  | [], _, _, _, d, hd => by simp at hd
  | _ :: _, [], _, h, _, _ => by simp [InRange] at h
  | (gn, gs) :: gds, i :: is, hn, hr, d, hd => by
    have hn' : gn ∉ gds.map (·.1) ∧ (gds.map (·.1)).Nodup := List.nodup_cons.mp hn
    simp only [List.map_cons, InRange] at hr
    simp only [List.map_cons, List.zip_cons_cons, List.lookup_cons]
    rcases List.mem_cons.mp hd with h | h
    · subst h; exact ⟨i, by simp, hr.1⟩
    · have hne : d.1 ≠ gn := fun e => hn'.1 (e ▸ List.mem_map_of_mem h)
      have hb : (d.1 == gn) = false := by simp [hne]
      obtain ⟨x, hx, hlt⟩ := zip_env_spec gds is hn'.2 hr.2 d h
      exact ⟨x, by simp [hb, hx], hlt⟩

end Ems
