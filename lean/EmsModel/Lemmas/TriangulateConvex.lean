import EmsModel.Lemmas.TriangulateGeom
/-! A strictly convex cell without repeated vertices is convex, fan-sorted and has only
non-degenerate fan triangles: the three hypotheses of the fan theorems follow from the
single hypothesis `StrictConvex` (which is what the hull test of the code decides). -/
namespace Ems.Tri

theorem cross_rot (a b c : Pt) : cross a b c = cross b c a := by simp only [cross]; ring

/-- Grassmann–Plücker relation for three directions seen from `o`, applied to the linear
functional `v ↦ cross o u v + cross o v w`. -/
theorem plucker (o u w a b c : Pt) :
    cross o a c * (cross o u b + cross o b w)
      = cross o a b * (cross o u c + cross o c w) + cross o b c * (cross o u a + cross o a w) := by
  simp only [cross]; ring

theorem fanFrom_sub (v0 a : Pt) (l : List Pt) : ∀ t ∈ fanFrom v0 l, t ∈ fanFrom v0 (a :: l) := by
  intro t ht
  cases l with
  | nil => simp [fanFrom] at ht
  | cons b rest => exact List.mem_cons_of_mem _ ht

/-- Angular order is transitive inside a half-plane: consecutive strict order plus a
positive linear functional gives pairwise strict order. -/
theorem pairwise_of_fanPos (s : Rat) (v0 u w : Pt) : ∀ l : List Pt,
    (∀ t ∈ fanFrom v0 l, 0 < s * cross v0 t.b t.c) →
    (∀ v ∈ l, 0 < s * (cross v0 u v + cross v0 v w)) →
    l.Pairwise (fun a b => 0 < s * cross v0 a b)
  | [], _, _ => List.Pairwise.nil
  | [_], _, _ => by simp
  | a :: b :: rest, hpos, hL => by
      have ih := pairwise_of_fanPos s v0 u w (b :: rest)
        (fun t ht => hpos t (fanFrom_sub v0 a _ t ht))
        (fun v hv => hL v (List.mem_cons_of_mem _ hv))
      refine List.pairwise_cons.mpr ⟨?_, ih⟩
      have hab : 0 < s * cross v0 a b := hpos ⟨v0, a, b⟩ (by simp [fanFrom])
      intro c hc
      rcases List.mem_cons.mp hc with rfl | hc
      · exact hab
      · have hbc : 0 < s * cross v0 b c := (List.pairwise_cons.mp ih).1 c hc
        have hLa := hL a (by simp)
        have hLb := hL b (by simp)
        have hLc := hL c (List.mem_cons_of_mem _ (List.mem_cons_of_mem _ hc))
        have hid : (s * cross v0 a c) * (s * (cross v0 u b + cross v0 b w))
            = (s * cross v0 a b) * (s * (cross v0 u c + cross v0 c w))
              + (s * cross v0 b c) * (s * (cross v0 u a + cross v0 a w)) := by
          have := plucker v0 u w a b c
          calc (s * cross v0 a c) * (s * (cross v0 u b + cross v0 b w))
              = s * s * (cross v0 a c * (cross v0 u b + cross v0 b w)) := by ring
            _ = s * s * (cross v0 a b * (cross v0 u c + cross v0 c w)
                  + cross v0 b c * (cross v0 u a + cross v0 a w)) := by rw [this]
            _ = _ := by ring
        have h1 := mul_pos hab hLc
        have h2 := mul_pos hbc hLa
        by_contra hneg
        have h3 : (s * cross v0 a c) * (s * (cross v0 u b + cross v0 b w)) ≤ 0 :=
          mul_nonpos_of_nonpos_of_nonneg (not_lt.mp hneg) (le_of_lt hLb)
        linarith

theorem edges_cons_cons (v0 a : Pt) (l : List Pt) :
    edges (v0 :: a :: l) = (v0, a) :: (a :: l).zip (l ++ [v0]) := by
  simp [edges]

/-- The three hypotheses of the fan theorems from strict convexity. -/
theorem strictConvex_facts (s : Rat) (v0 a b : Pt) (rest : List Pt)
    (hc : StrictConvex s (v0 :: a :: b :: rest)) (hnd : (v0 :: a :: b :: rest).Nodup) :
    ConvexCell s (v0 :: a :: b :: rest) ∧
    (∀ t ∈ fanFrom v0 (a :: b :: rest), 0 < s * t.area2) ∧
    (a :: b :: rest).Pairwise (fun x y => 0 < s * cross v0 x y) := by
  have hv0 : v0 ∉ a :: b :: rest := (List.nodup_cons.mp hnd).1
  have hnd' : (a :: b :: rest).Nodup := (List.nodup_cons.mp hnd).2
  have hE := edges_cons_cons v0 a (b :: rest)
  -- fan triangles are non-degenerate and oriented like the cell
  have hpos : ∀ t ∈ fanFrom v0 (a :: b :: rest), 0 < s * cross v0 t.b t.c := by
    intro t ht
    obtain ⟨_, hb, hcm⟩ := mem_fanFrom ht
    have hedge : (t.b, t.c) ∈ edges (v0 :: a :: b :: rest) := by
      rw [hE]; exact List.mem_cons_of_mem _ (fanFrom_edge v0 a (b :: rest) [v0] t ht)
    have := hc _ hedge v0 (by simp) (fun h => hv0 (h ▸ hb)) (fun h => hv0 (h ▸ hcm))
    rw [cross_rot]; exact this
  refine ⟨?_, ?_, ?_⟩
  · -- convex: a vertex on an edge gives 0, any other vertex is strictly inside
    intro v hv e he
    by_cases h1 : v = e.1
    · rw [h1, cross_self_mid]; simp
    · by_cases h2 : v = e.2
      · rw [h2, cross_self_right]; simp
      · exact le_of_lt (hc e he v hv h1 h2)
  · intro t ht
    have := hpos t ht
    simp only [Tri.area2, (mem_fanFrom ht).1]
    exact this
  · -- fan-sorted, strictly
    have hz : ((a :: b :: rest).getLast (by simp), v0) ∈ edges (v0 :: a :: b :: rest) := by
      rw [hE]; exact List.mem_cons_of_mem _ (last_edge v0 a (b :: rest))
    have hzmem : (a :: b :: rest).getLast (by simp) ∈ b :: rest := by
      rw [List.getLast_cons_cons]; exact List.getLast_mem _
    have haz : a ≠ (a :: b :: rest).getLast (by simp) := by
      intro h
      exact (List.nodup_cons.mp hnd').1 (h ▸ hzmem)
    apply pairwise_of_fanPos s v0 a ((a :: b :: rest).getLast (by simp)) _ hpos
    intro v hv
    have hvv0 : v ≠ v0 := fun h => hv0 (h ▸ hv)
    have hvp : v ∈ v0 :: a :: b :: rest := List.mem_cons_of_mem _ hv
    -- first term: edge v0 → a
    have t1 : 0 ≤ s * cross v0 a v ∧ (v ≠ a → 0 < s * cross v0 a v) := by
      by_cases h : v = a
      · rw [h, cross_self_right]; simp
      · have := hc (v0, a) (by rw [hE]; simp) v hvp hvv0 h
        exact ⟨le_of_lt this, fun _ => this⟩
    -- second term: edge last → v0
    have t2 : 0 ≤ s * cross v0 v ((a :: b :: rest).getLast (by simp)) ∧
        (v ≠ (a :: b :: rest).getLast (by simp) →
          0 < s * cross v0 v ((a :: b :: rest).getLast (by simp))) := by
      by_cases h : v = (a :: b :: rest).getLast (by simp)
      · rw [← h, cross_self_right]; simp
      · have := hc _ hz v hvp h hvv0
        have e : cross ((a :: b :: rest).getLast (by simp)) v0 v
            = cross v0 v ((a :: b :: rest).getLast (by simp)) := cross_rot _ _ _
        rw [e] at this
        exact ⟨le_of_lt this, fun _ => this⟩
    rw [mul_add]
    by_cases h : v = a
    · have := t2.2 (h ▸ haz)
      linarith [t1.1]
    · have := t1.2 h
      linarith [t2.1]

end Ems.Tri
