import EmsModel.Core.CacheKeyScalars
import EmsModel.Lemmas.CacheKey
/-! Helper lemmas about `wScalar` (Core/CacheKeyScalars.lean): type byte and body. -/
namespace Ems.CacheKey

/-- the type byte `w_object` writes, FLAG_REF included -/
def scalarHead (r : Bool) : PyScalar → UInt8
  | .none => 0x4e
  | .bool true => 0x54
  | .bool false => 0x46
  | .int _ => if r then 0xe9 else 0x69
  | .float _ => if r then 0xe7 else 0x67
  | .buffer _ => if r then 0xf3 else 0x73

/-- what follows the type byte -/
def scalarBody : PyScalar → Option Bytes
  | .none => some []
  | .bool _ => some []
  | .int v => hashInt v
  | .float image => if image.length = 8 then some image else Option.none
  | .buffer raw => if raw.length < 2147483648 then some (le32 raw.length ++ raw) else Option.none

/-- which kind of value: 0 None, 1 True, 2 False, 3 int, 4 float, 5 buffer -/
def scalarKind : PyScalar → Nat
  | .none => 0
  | .bool true => 1
  | .bool false => 2
  | .int _ => 3
  | .float _ => 4
  | .buffer _ => 5

theorem wScalar_eq (r : Bool) (a : PyScalar) :
    wScalar r a = (scalarBody a).map (scalarHead r a :: ·) := by
  cases a with
  | none => rfl
  | bool b => cases b <;> rfl
  | int v => rfl
  | float image => simp only [wScalar, scalarBody, scalarHead]; split <;> rfl
  | buffer raw => simp only [wScalar, scalarBody, scalarHead]; split <;> rfl

theorem wScalar_eq_some {r : Bool} {a : PyScalar} {x : Bytes} (h : wScalar r a = some x) :
    ∃ p, scalarBody a = some p ∧ x = scalarHead r a :: p := by
  rw [wScalar_eq, Option.map_eq_some_iff] at h
  obtain ⟨p, hp, hx⟩ := h
  exact ⟨p, hp, hx.symm⟩

/-- the type byte tells the kind of value, whatever the reference flags -/
theorem scalarHead_kind (r r' : Bool) (a b : PyScalar) (h : scalarHead r a = scalarHead r' b) :
    scalarKind a = scalarKind b := by
  cases a with
  | none => cases b with
    | bool d => cases d <;> cases r' <;> simp [scalarHead] at h
    | none => rfl
    | _ => cases r' <;> simp [scalarHead] at h
  | bool c => cases b with
    | bool d => cases c <;> cases d <;> simp [scalarHead] at h <;> rfl
    | none => cases c <;> simp [scalarHead] at h
    | _ => cases c <;> cases r' <;> simp [scalarHead] at h
  | int v => cases b with
    | bool d => cases d <;> cases r <;> simp [scalarHead] at h
    | int w => rfl
    | none => cases r <;> simp [scalarHead] at h
    | _ => cases r <;> cases r' <;> simp [scalarHead] at h
  | float im => cases b with
    | bool d => cases d <;> cases r <;> simp [scalarHead] at h
    | float im' => rfl
    | none => cases r <;> simp [scalarHead] at h
    | _ => cases r <;> cases r' <;> simp [scalarHead] at h
  | buffer raw => cases b with
    | bool d => cases d <;> cases r <;> simp [scalarHead] at h
    | buffer raw' => rfl
    | none => cases r <;> simp [scalarHead] at h
    | _ => cases r <;> cases r' <;> simp [scalarHead] at h

/-- kind and body determine the value -/
theorem scalar_of_kind_body (a b : PyScalar) (p : Bytes) (hk : scalarKind a = scalarKind b)
    (ha : scalarBody a = some p) (hb : scalarBody b = some p) : a = b := by
  cases a with
  | none => cases b with
    | none => rfl
    | bool d => cases d <;> simp [scalarKind] at hk
    | _ => simp [scalarKind] at hk
  | bool c => cases b with
    | bool d => cases c <;> cases d <;> simp [scalarKind] at hk <;> rfl
    | none => cases c <;> simp [scalarKind] at hk
    | _ => cases c <;> simp [scalarKind] at hk
  | int v => cases b with
    | int w => rw [hashInt_inj ha hb]
    | bool d => cases d <;> simp [scalarKind] at hk
    | _ => simp [scalarKind] at hk
  | float im => cases b with
    | float im' =>
      simp only [scalarBody] at ha hb
      split at ha <;> split at hb <;> simp at ha hb
      rw [ha, hb]
    | bool d => cases d <;> simp [scalarKind] at hk
    | _ => simp [scalarKind] at hk
  | buffer raw => cases b with
    | buffer raw' =>
      simp only [scalarBody] at ha hb
      split at ha <;> split at hb <;> simp at ha hb
      have h := ha.trans hb.symm
      rw [(List.append_inj h (by rw [le32_length, le32_length])).2]
    | bool d => cases d <;> simp [scalarKind] at hk
    | _ => simp [scalarKind] at hk

end Ems.CacheKey
