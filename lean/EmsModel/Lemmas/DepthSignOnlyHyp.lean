import EmsModel.Lemmas.DepthSignOnly
import EmsModel.Lemmas.DepthHyp
/-!
Lemmas/DepthSignOnlyHyp.lean — executable version of the hypotheses of the sign-only C13
theorems (`ValidSign`, any number of levels) with its soundness: when the driver answers `1`
to `hypsign` for an input of the correspondence run, the `sign_only_*` theorems speak about it.
-/
namespace Ems.Depth

open Ems

def coordAnyB (ds : Dataset) (c : String) : Bool :=
  match ds.find c with
  | some cv => cv.dims.length == 1 && cv.bounds != some c
  | none => false

/-- `ValidSign` + "no coordinate is its own bounds", decided -/
def validSignB (ds : Dataset) (coords : List String) : Bool :=
  coords.all (coordAnyB ds)
    && pairwiseB (fun c1 c2 => c1 != c2 && indepB ds c1 c2) coords
    && nodupB (ds.vars.map (·.name))

theorem validSignB_sound (ds : Dataset) (coords : List String) (h : validSignB ds coords = true) :
    ValidSign ds coords ∧ ∀ c ∈ coords, ∀ cv, ds.find c = some cv → cv.bounds ≠ some c := by
  simp only [validSignB, Bool.and_eq_true, List.all_eq_true] at h
  obtain ⟨⟨h1, h2⟩, h3⟩ := h
  refine ⟨⟨?_, ?_, nodupB_sound _ h3⟩, ?_⟩
  · intro c hc
    have := h1 c hc
    unfold coordAnyB at this
    cases hf : ds.find c with
    | none => simp [hf] at this
    | some cv =>
      simp only [hf, Bool.and_eq_true, beq_iff_eq] at this
      match hd : cv.dims, this.1 with
      | [d], _ => exact ⟨cv, d, hf, hd⟩
  · exact pairwiseB_sound _ _ (fun a b hab => by
      simp only [Bool.and_eq_true, bne_iff_ne, ne_eq] at hab
      exact ⟨hab.1, indepB_sound ds a b hab.2⟩) coords h2
  · intro c hc cv hf
    have := h1 c hc
    unfold coordAnyB at this
    simp only [hf, Bool.and_eq_true, bne_iff_ne, ne_eq] at this
    exact this.2

end Ems.Depth
