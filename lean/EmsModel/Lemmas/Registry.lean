import EmsModel.Core.Registry
/-!
Lemmas/Registry.lean — list theory behind the registry model: de-duplication keeping first
occurrences, the matching loop, and "head of a stable descending sort = first element of
maximal key" (from core's `List.mergeSort_cons`).
-/
namespace Ems.Reg

deriving instance DecidableEq for Except

set_option linter.unusedSectionVars false
set_option linter.unusedSimpArgs false

section Generic
variable {α : Type} [DecidableEq α]

/-! ### `dedupAux` -/

theorem mem_dedupAux (l : List α) : ∀ (seen : List α) (x : α),
    x ∈ dedupAux seen l ↔ x ∈ l ∧ x ∉ seen := by
  induction l with
  | nil => intro seen x; simp [dedupAux]
  | cons c cs ih =>
    intro seen x
    by_cases hc : c ∈ seen
    · simp only [dedupAux, hc, if_true, ih, List.mem_cons]
      constructor
      · rintro ⟨h1, h2⟩; exact ⟨Or.inr h1, h2⟩
      · rintro ⟨h1 | h1, h2⟩
        · subst h1; exact absurd hc h2
        · exact ⟨h1, h2⟩
    · simp only [dedupAux, hc, if_false, List.mem_cons, ih]
      constructor
      · rintro (h | ⟨h1, h2⟩)
        · subst h; exact ⟨Or.inl rfl, hc⟩
        · exact ⟨Or.inr h1, fun h => h2 (Or.inr h)⟩
      · rintro ⟨h1 | h1, h2⟩
        · exact Or.inl h1
        · by_cases hx : x = c
          · exact Or.inl hx
          · refine Or.inr ⟨h1, ?_⟩
            rintro (h | h)
            · exact hx h
            · exact h2 h

theorem nodup_dedupAux (l : List α) : ∀ (seen : List α), (dedupAux seen l).Nodup := by
  induction l with
  | nil => intro seen; simp [dedupAux]
  | cons c cs ih =>
    intro seen
    by_cases hc : c ∈ seen
    · simp only [dedupAux, hc, if_true]; exact ih seen
    · simp only [dedupAux, hc, if_false, List.nodup_cons]
      refine ⟨?_, ih _⟩
      rw [mem_dedupAux]
      simp

theorem dedupAux_sublist (l : List α) : ∀ (seen : List α), List.Sublist (dedupAux seen l) l := by
  induction l with
  | nil => intro seen; simp [dedupAux]
  | cons c cs ih =>
    intro seen
    by_cases hc : c ∈ seen
    · simp only [dedupAux, hc, if_true]; exact (ih seen).cons c
    · simp only [dedupAux, hc, if_false]; exact (ih _).cons_cons c

/-- `seen` matters only through membership -/
theorem dedupAux_congr (l : List α) : ∀ (s₁ s₂ : List α), (∀ x, x ∈ s₁ ↔ x ∈ s₂) →
    dedupAux s₁ l = dedupAux s₂ l := by
  induction l with
  | nil => intros; rfl
  | cons c cs ih =>
    intro s₁ s₂ h
    by_cases hc : c ∈ s₁
    · have hc2 : c ∈ s₂ := (h c).1 hc
      simp only [dedupAux, hc, hc2, if_true]; exact ih _ _ h
    · have hc2 : c ∉ s₂ := fun h2 => hc ((h c).2 h2)
      simp only [dedupAux, hc, hc2, if_false]
      congr 1
      apply ih
      intro x; simp [h x]

theorem dedupAux_append (l₁ : List α) : ∀ (seen l₂ : List α),
    dedupAux seen (l₁ ++ l₂) = dedupAux seen l₁ ++ dedupAux (l₁ ++ seen) l₂ := by
  induction l₁ with
  | nil => intro seen l₂; simp [dedupAux]
  | cons c cs ih =>
    intro seen l₂
    by_cases hc : c ∈ seen
    · simp only [List.cons_append, dedupAux, hc, if_true, ih]
      congr 1
      apply dedupAux_congr
      intro x
      simp only [List.mem_append, List.mem_cons]
      grind
    · simp only [List.cons_append, dedupAux, hc, if_false, ih]
      congr 2
      apply dedupAux_congr
      intro x
      simp only [List.mem_append, List.mem_cons]
      grind

/-- the kept elements are in first-occurrence order -/
theorem pairwise_idxOf_dedupAux (l : List α) : ∀ (seen : List α),
    (dedupAux seen l).Pairwise (fun a b => l.idxOf a < l.idxOf b) := by
  induction l with
  | nil => intro seen; simp [dedupAux]
  | cons c cs ih =>
    intro seen
    have shift : ∀ (s : List α), c ∈ s → ∀ a b, a ∈ dedupAux s cs → b ∈ dedupAux s cs →
        cs.idxOf a < cs.idxOf b → (c :: cs).idxOf a < (c :: cs).idxOf b := by
      intro s hs a b ha hb hlt
      have hac : ¬ c = a := by
        rintro rfl; exact ((mem_dedupAux cs s _).1 ha).2 hs
      have hbc : ¬ c = b := by
        rintro rfl; exact ((mem_dedupAux cs s _).1 hb).2 hs
      have h1 : (c == a) = false := by simp [hac]
      have h2 : (c == b) = false := by simp [hbc]
      simp only [List.idxOf_cons, h1, h2, cond_false]
      omega
    by_cases hc : c ∈ seen
    · simp only [dedupAux, hc, if_true]
      exact (ih seen).imp_of_mem (fun {a b} ha hb h => shift seen hc a b ha hb h)
    · simp only [dedupAux, hc, if_false, List.pairwise_cons]
      refine ⟨?_, (ih _).imp_of_mem (fun {a b} ha hb h => shift _ (List.mem_cons_self) a b ha hb h)⟩
      intro b hb
      have hbc : ¬ c = b := by
        rintro rfl; exact ((mem_dedupAux cs _ _).1 hb).2 List.mem_cons_self
      have h2 : (c == b) = false := by simp [hbc]
      simp [List.idxOf_cons, h2]

/-! ### `conventions` -/

theorem mem_conventions (reg ep : List α) (x : α) : x ∈ conventions reg ep ↔ x ∈ reg ∨ x ∈ ep := by
  simp [conventions, mem_dedupAux]

theorem nodup_conventions (reg ep : List α) : (conventions reg ep).Nodup := nodup_dedupAux _ _

theorem conventions_eq_append (reg ep : List α) :
    conventions reg ep = dedupAux [] reg ++ dedupAux reg ep := by
  unfold conventions
  rw [dedupAux_append]
  congr 1
  apply dedupAux_congr
  intro x; simp

/-- in `conventions`, nothing unregistered comes before something registered -/
theorem conventions_registered_first (reg ep : List α) :
    (conventions reg ep).Pairwise (fun a b => b ∈ reg → a ∈ reg) := by
  rw [conventions_eq_append, List.pairwise_append]
  refine ⟨?_, ?_, ?_⟩
  · apply List.Pairwise.imp_of_mem (R := fun _ _ => True)
    · intro a b ha _ _ _
      exact ((mem_dedupAux reg [] a).1 ha).1
    · exact List.pairwise_of_forall (fun _ _ => trivial)
  · apply List.Pairwise.imp_of_mem (R := fun _ _ => True)
    · intro a b _ hb _ hbr
      exact absurd hbr ((mem_dedupAux ep reg b).1 hb).2
    · exact List.pairwise_of_forall (fun _ _ => trivial)
  · intro a ha b _ _
    exact ((mem_dedupAux reg [] a).1 ha).1

/-! ### the matching loop -/

/-- the matches when no check raises -/
def okMatch {ε : Type} (check : α → Except ε (Option Nat)) (c : α) : Option (α × Nat) :=
  match check c with
  | .ok (some s) => some (c, s)
  | _ => none

theorem collect_ok {ε : Type} (check : α → Except ε (Option Nat)) (cs : List α)
    (h : ∀ c ∈ cs, ∃ m, check c = .ok m) :
    collect check cs = .ok (cs.filterMap (okMatch check)) := by
  induction cs with
  | nil => rfl
  | cons c cs ih =>
    obtain ⟨m, hm⟩ := h c List.mem_cons_self
    have ih' := ih (fun d hd => h d (List.mem_cons_of_mem _ hd))
    cases m with
    | none => simp [collect, hm, ih', okMatch, List.filterMap_cons]
    | some s => simp [collect, hm, ih', okMatch, List.filterMap_cons]

theorem collect_ok_inv {ε : Type} (check : α → Except ε (Option Nat)) (cs : List α)
    (l : List (α × Nat)) (h : collect check cs = .ok l) : ∀ c ∈ cs, ∃ m, check c = .ok m := by
  induction cs generalizing l with
  | nil => intro c hc; cases hc
  | cons c cs ih =>
    intro d hd
    simp only [collect] at h
    cases hc : check c with
    | error e => simp [hc] at h
    | ok m =>
      cases hr : collect check cs with
      | error e => simp [hc, hr] at h
      | ok rest =>
        rcases List.mem_cons.1 hd with rfl | hd'
        · exact ⟨m, hc⟩
        · exact ih rest hr d hd'

theorem collect_error {ε : Type} (check : α → Except ε (Option Nat)) (cs : List α) :
    (∃ e, collect check cs = .error e) ↔ ∃ c ∈ cs, ∃ e, check c = .error e := by
  constructor
  · rintro ⟨e, he⟩
    apply Classical.byContradiction
    intro hn
    have hall : ∀ c ∈ cs, ∃ m, check c = .ok m := by
      intro c hc
      cases hcc : check c with
      | ok m => exact ⟨m, rfl⟩
      | error e' => exact absurd ⟨c, hc, e', hcc⟩ hn
    rw [collect_ok check cs hall] at he
    cases he
  · rintro ⟨c, hc, e, he⟩
    cases hr : collect check cs with
    | error e' => exact ⟨e', rfl⟩
    | ok l =>
      obtain ⟨m, hm⟩ := collect_ok_inv check cs l hr c hc
      rw [hm] at he; cases he

/-! ### head of the stable descending sort -/

theorem specGe_trans (a b c : α × Nat) : specGe a b = true → specGe b c = true → specGe a c = true := by
  simp only [specGe, decide_eq_true_eq]; omega

theorem specGe_total (a b : α × Nat) : (specGe a b || specGe b a) = true := by
  simp only [specGe, Bool.or_eq_true, decide_eq_true_eq]; omega

theorem firstMax_mem : ∀ (l : List (α × Nat)) (x : α × Nat), firstMax l = some x → x ∈ l := by
  intro l
  induction l with
  | nil => intro x h; simp [firstMax] at h
  | cons a l ih =>
    intro x h
    simp only [firstMax] at h
    cases hl : firstMax l with
    | none => simp [hl] at h; subst h; exact List.mem_cons_self
    | some b =>
      simp only [hl] at h
      split at h
      · cases h; exact List.mem_cons_of_mem _ (ih _ hl)
      · cases h; exact List.mem_cons_self

theorem firstMax_eq_none (l : List (α × Nat)) : firstMax l = none ↔ l = [] := by
  cases l with
  | nil => simp [firstMax]
  | cons a l =>
    simp only [firstMax]
    cases firstMax l with
    | none => simp
    | some b => by_cases h : a.2 < b.2 <;> simp [h]

/-- `mergeSort … specGe` puts the first element of maximal specificity at the head -/
theorem head?_mergeSort_specGe (l : List (α × Nat)) :
    (l.mergeSort specGe).head? = firstMax l := by
  induction l with
  | nil => simp [firstMax]
  | cons a l ih =>
    obtain ⟨l₁, l₂, h₁, h₂, h₃⟩ := List.mergeSort_cons specGe_trans specGe_total a l
    rw [h₁]
    cases l₁ with
    | nil =>
      simp only [List.nil_append] at h₁ h₂ ⊢
      simp only [List.head?_cons, firstMax]
      cases hl : firstMax l with
      | none => rfl
      | some b =>
        have hb : b ∈ l.mergeSort specGe := List.mem_mergeSort.2 (firstMax_mem l b hl)
        have hs := List.pairwise_mergeSort specGe_trans specGe_total (a :: l)
        rw [h₁, List.pairwise_cons] at hs
        rw [h₂] at hb
        have := hs.1 b hb
        simp only [specGe, decide_eq_true_eq] at this
        have : ¬ a.2 < b.2 := by omega
        simp [this]
    | cons b' l₁' =>
      simp only [List.cons_append, List.head?_cons]
      rw [h₂] at ih
      simp only [List.cons_append, List.head?_cons] at ih
      have hb := h₃ b' List.mem_cons_self
      simp only [specGe, Bool.not_eq_true', decide_eq_false_iff_not] at hb
      have : a.2 < b'.2 := by omega
      simp [firstMax, ← ih, this]

theorem firstMax_of_split (pre post : List (α × Nat)) (x : α × Nat)
    (hpre : ∀ y ∈ pre, y.2 < x.2) (hpost : ∀ y ∈ post, y.2 ≤ x.2) :
    firstMax (pre ++ x :: post) = some x := by
  induction pre with
  | nil =>
    simp only [List.nil_append, firstMax]
    cases hl : firstMax post with
    | none => rfl
    | some b =>
      have := hpost b (firstMax_mem post b hl)
      have : ¬ x.2 < b.2 := by omega
      simp [this]
  | cons p pre ih =>
    have ih' := ih (fun y hy => hpre y (List.mem_cons_of_mem _ hy))
    have := hpre p List.mem_cons_self
    simp [firstMax, ih', this]

theorem firstMax_split : ∀ (l : List (α × Nat)) (x : α × Nat), firstMax l = some x →
    ∃ pre post, l = pre ++ x :: post ∧ (∀ y ∈ pre, y.2 < x.2) ∧ (∀ y ∈ post, y.2 ≤ x.2) := by
  intro l
  induction l with
  | nil => intro x h; simp [firstMax] at h
  | cons a l ih =>
    intro x h
    simp only [firstMax] at h
    cases hl : firstMax l with
    | none =>
      simp only [hl] at h
      cases h
      have : l = [] := (firstMax_eq_none l).1 hl
      subst this
      exact ⟨[], [], rfl, by simp, by simp⟩
    | some b =>
      simp only [hl] at h
      obtain ⟨pre, post, hsplit, hpre, hpost⟩ := ih b hl
      split at h
      · cases h
        rename_i hlt
        refine ⟨a :: pre, post, by simp [hsplit], ?_, hpost⟩
        intro y hy
        rcases List.mem_cons.1 hy with rfl | hy
        · exact hlt
        · exact hpre y hy
      · cases h
        rename_i hge
        refine ⟨[], l, rfl, by simp, ?_⟩
        intro y hy
        rw [hsplit] at hy
        have hb : b.2 ≤ a.2 := by omega
        rcases List.mem_append.1 hy with hy | hy
        · have := hpre y hy; omega
        · rcases List.mem_cons.1 hy with rfl | hy
          · exact hb
          · have := hpost y hy; omega

/-! ### `guess` -/

theorem guess_ok_all_ok {ε : Type} (check : α → Except ε (Option Nat)) (cs : List α) (r : Option α)
    (h : guess check cs = .ok r) : ∀ c ∈ cs, ∃ m, check c = .ok m := by
  simp only [guess, matchConventions] at h
  cases hc : collect check cs with
  | error e => simp [hc] at h
  | ok l => exact collect_ok_inv check cs l hc

theorem guess_eq_firstMax {ε : Type} (check : α → Except ε (Option Nat)) (cs : List α)
    (hok : ∀ c ∈ cs, ∃ m, check c = .ok m) :
    guess check cs = .ok ((firstMax (cs.filterMap (okMatch check))).map (·.1)) := by
  simp [guess, matchConventions, collect_ok check cs hok, head?_mergeSort_specGe]

theorem okMatch_eq_some {ε : Type} (check : α → Except ε (Option Nat)) (c : α) (x : α × Nat) :
    okMatch check c = some x ↔ x.1 = c ∧ check c = .ok (some x.2) := by
  unfold okMatch
  cases h : check c with
  | error e => simp
  | ok m =>
    cases m with
    | none => simp
    | some s =>
      obtain ⟨x1, x2⟩ := x
      simp only [Option.some.injEq, Prod.mk.injEq, Except.ok.injEq]
      constructor
      · rintro ⟨rfl, rfl⟩; exact ⟨rfl, rfl⟩
      · rintro ⟨rfl, rfl⟩; exact ⟨rfl, rfl⟩

/-- The winner, positionally: it matches with some specificity `s`, everything before it
that matches is strictly less specific, everything after it is at most as specific. -/
theorem guess_some_iff {ε : Type} (check : α → Except ε (Option Nat)) (cs : List α)
    (hok : ∀ c ∈ cs, ∃ m, check c = .ok m) (c : α) :
    guess check cs = .ok (some c) ↔
      ∃ pre post s, cs = pre ++ c :: post ∧ check c = .ok (some s) ∧
        (∀ d ∈ pre, ∀ t, check d = .ok (some t) → t < s) ∧
        (∀ d ∈ post, ∀ t, check d = .ok (some t) → t ≤ s) := by
  rw [guess_eq_firstMax check cs hok]
  constructor
  · intro h
    simp only [Except.ok.injEq, Option.map_eq_some_iff] at h
    obtain ⟨x, hx, hxc⟩ := h
    obtain ⟨pre', post', hsplit, hpre, hpost⟩ := firstMax_split _ x hx
    obtain ⟨l₁, l₂, hcs, hf₁, hf₂⟩ := List.filterMap_eq_append_iff.1 hsplit
    obtain ⟨m₁, a, m₂, hl₂, hnone, hfa, hf₃⟩ := List.filterMap_eq_cons_iff.1 hf₂
    obtain ⟨hxa, hca⟩ := (okMatch_eq_some check a x).1 hfa
    have hac : a = c := by rw [← hxa, hxc]
    subst hac
    refine ⟨l₁ ++ m₁, m₂, x.2, by simp [hcs, hl₂], hca, ?_, ?_⟩
    · intro d hd t ht
      rcases List.mem_append.1 hd with hd | hd
      · have : (d, t) ∈ pre' := by
          rw [← hf₁, List.mem_filterMap]
          exact ⟨d, hd, (okMatch_eq_some check d (d, t)).2 ⟨rfl, ht⟩⟩
        exact hpre _ this
      · have := hnone d hd
        simp [okMatch, ht] at this
    · intro d hd t ht
      have : (d, t) ∈ post' := by
        rw [← hf₃, List.mem_filterMap]
        exact ⟨d, hd, (okMatch_eq_some check d (d, t)).2 ⟨rfl, ht⟩⟩
      exact hpost _ this
  · rintro ⟨pre, post, s, hcs, hc, hpre, hpost⟩
    subst hcs
    have hfm : okMatch check c = some (c, s) := (okMatch_eq_some check c (c, s)).2 ⟨rfl, hc⟩
    have : firstMax (List.filterMap (okMatch check) (pre ++ c :: post)) = some (c, s) := by
      rw [List.filterMap_append, List.filterMap_cons, hfm]
      apply firstMax_of_split
      · intro y hy
        obtain ⟨d, hd, hdy⟩ := List.mem_filterMap.1 hy
        obtain ⟨h1, h2⟩ := (okMatch_eq_some check d y).1 hdy
        exact hpre d hd _ h2
      · intro y hy
        obtain ⟨d, hd, hdy⟩ := List.mem_filterMap.1 hy
        obtain ⟨h1, h2⟩ := (okMatch_eq_some check d y).1 hdy
        exact hpost d hd _ h2
    rw [this]; rfl

theorem guess_none_iff {ε : Type} (check : α → Except ε (Option Nat)) (cs : List α) :
    guess check cs = .ok none ↔ ∀ c ∈ cs, check c = .ok none := by
  constructor
  · intro h
    have hok := guess_ok_all_ok check cs none h
    rw [guess_eq_firstMax check cs hok] at h
    simp only [Except.ok.injEq, Option.map_eq_none_iff] at h
    have hnil := (firstMax_eq_none _).1 h
    intro c hc
    obtain ⟨m, hm⟩ := hok c hc
    cases m with
    | none => exact hm
    | some s =>
      have : (c, s) ∈ cs.filterMap (okMatch check) :=
        List.mem_filterMap.2 ⟨c, hc, (okMatch_eq_some check c (c, s)).2 ⟨rfl, hm⟩⟩
      rw [hnil] at this; cases this
  · intro h
    have hok : ∀ c ∈ cs, ∃ m, check c = .ok m := fun c hc => ⟨none, h c hc⟩
    rw [guess_eq_firstMax check cs hok]
    have : cs.filterMap (okMatch check) = [] := by
      rw [List.filterMap_eq_nil_iff]
      intro c hc
      simp [okMatch, h c hc]
    simp [this, firstMax]

theorem guess_error_iff {ε : Type} (check : α → Except ε (Option Nat)) (cs : List α) :
    (∃ e, guess check cs = .error e) ↔ ∃ c ∈ cs, ∃ e, check c = .error e := by
  rw [← collect_error]
  simp only [guess, matchConventions]
  cases collect check cs with
  | error e => simp
  | ok l => simp

/-- the winner is a match of maximal specificity -/
theorem guess_max {ε : Type} (check : α → Except ε (Option Nat)) (cs : List α) (c : α)
    (h : guess check cs = .ok (some c)) :
    c ∈ cs ∧ ∃ s, check c = .ok (some s) ∧ ∀ d ∈ cs, ∀ t, check d = .ok (some t) → t ≤ s := by
  have hok := guess_ok_all_ok check cs _ h
  rw [guess_eq_firstMax check cs hok] at h
  simp only [Except.ok.injEq, Option.map_eq_some_iff] at h
  obtain ⟨x, hx, hxc⟩ := h
  obtain ⟨pre', post', hsplit, hpre, hpost⟩ := firstMax_split _ x hx
  have hxm : x ∈ cs.filterMap (okMatch check) := firstMax_mem _ x hx
  obtain ⟨a, ha, hax⟩ := List.mem_filterMap.1 hxm
  obtain ⟨h1, h2⟩ := (okMatch_eq_some check a x).1 hax
  have hac : a = c := by rw [← h1, hxc]
  subst hac
  refine ⟨ha, x.2, h2, ?_⟩
  intro d hd t ht
  have : (d, t) ∈ cs.filterMap (okMatch check) :=
    List.mem_filterMap.2 ⟨d, hd, (okMatch_eq_some check d (d, t)).2 ⟨rfl, ht⟩⟩
  rw [hsplit] at this
  rcases List.mem_append.1 this with hm | hm
  · have := hpre _ hm; simp at this; omega
  · rcases List.mem_cons.1 hm with hm | hm
    · rw [← hm]; exact Nat.le_refl _
    · exact hpost _ hm

/-- `guess` with the sort replaced by its specification (`firstMax`): structurally recursive,
so concrete instances can be evaluated by `decide` -/
def guessSpec {ε : Type} (check : α → Except ε (Option Nat)) (cs : List α) : Except ε (Option α) :=
  match collect check cs with
  | .error e => .error e
  | .ok l => .ok ((firstMax l).map (·.1))

theorem guess_eq_guessSpec {ε : Type} (check : α → Except ε (Option Nat)) (cs : List α) :
    guess check cs = guessSpec check cs := by
  simp only [guess, matchConventions, guessSpec]
  cases collect check cs with
  | error e => rfl
  | ok l => simp [head?_mergeSort_specGe]

end Generic

/-- `detect` with the sort replaced by its specification -/
def detectSpec (env : SynthEnv) (reg : List Cls) (f : Features) : Except Unit (Option Cls) :=
  guessSpec (fun c => clsCheck env c f) (conventions reg entryPointClasses)

theorem detect_eq_detectSpec : detect = detectSpec := by
  funext env reg f
  exact guess_eq_guessSpec _ _

end Ems.Reg
